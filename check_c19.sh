#!/bin/sh
# C19 = functional half (buffer engine) + memory-safety half: the same simulator binary and seeds of all
# engines re-run under AddressSanitizer (quick + thorough) and a Miri sample (thorough).
set -u
tier="$2"; shift 2
cd /verif/sim || exit 2
mkdir -p /verif/replays /verif/evidence
rc=0
./target/release/tw2sim C19 "$tier" "$@"; r=$?
[ $r -ne 0 ] && rc=$r
[ $rc -eq 2 ] && exit 2
case " $* " in *" --no-evidence "*) noev=1;; *) noev=0;; esac
# ---- AddressSanitizer build of the same crate (nightly; incremental after setup)
ASAN_DIR=/verif/sim/target-asan
if ! RUSTFLAGS="-Zsanitizer=address --cfg libtw2_verif" cargo +nightly build --release --offline --target x86_64-unknown-linux-gnu --target-dir $ASAN_DIR >/verif/replays/C19-asan-build.log 2>&1; then
    tail -20 /verif/replays/C19-asan-build.log
    echo "HARNESS-ERROR: AddressSanitizer build failed"
    exit 2
fi
ASAN_BIN=$ASAN_DIR/x86_64-unknown-linux-gnu/release/tw2sim
if [ "$tier" = "quick" ]; then runs_net=400; runs_other=1500; runs_slow=120; else runs_net=8000; runs_other=20000; runs_slow=1500; fi
summary=""
asan_total=0
for p in C01 C02 C03 C04 C12 C13 C15 C16 C17 C18 C19 C20; do
    case $p in C01|C02|C03|C04|C20) n=$runs_net;; C13|C15|C16|C17) n=$runs_slow;; *) n=$runs_other;; esac
    log=/verif/replays/C19-asan-$p.log
    TW2SIM_HANG_SECS=1800 ASAN_OPTIONS=detect_leaks=0:halt_on_error=1:abort_on_error=0 TW2SIM_REPLAY_DIR=/verif/replays/asan $ASAN_BIN $p quick --runs $n --no-evidence >$log 2>&1; r=$?
    if grep -q "unknown property" $log; then continue; fi
    if grep -q "AddressSanitizer" $log; then
        grep -m3 -E "AddressSanitizer|^    #[0-3] " $log
        echo "violation: class=asan-report engine-of=$p : AddressSanitizer reported a memory error while re-running the $p simulation (VERIF_SEED=${VERIF_SEED:-1}, runs $n)"
        echo "VIOLATION property=C19 replay=$log"
        rc=1
    elif [ $r -ne 0 ] && [ $r -ne 1 ]; then
        tail -5 $log
        echo "HARNESS-ERROR: ASan run of $p exited $r"
        exit 2
    fi
    got=$(grep -o "runs=[0-9]*" $log | tail -1 | cut -d= -f2)
    asan_total=$((asan_total + ${got:-0}))
    summary="$summary $p:${got:-0}"
done
echo "C19 memory-safety half: AddressSanitizer re-run of all engines:$summary (total $asan_total runs)"
miri_note="not run in the quick tier"
if [ "$tier" = "thorough" ]; then
    miri_note=""
    for spec in "C19 64" "C12 3" "C18 4"; do
        set -- $spec
        log=/verif/replays/C19-miri-$1.log
        TW2SIM_HANG_SECS=100000 MIRIFLAGS="-Zmiri-tree-borrows -Zmiri-disable-isolation" RUSTFLAGS="--cfg libtw2_verif" timeout 1500 cargo +nightly miri run --offline --target-dir /verif/sim/target-miri -- $1 quick --runs $2 --workers 4 --no-evidence >$log 2>&1; r=$?
        if grep -q "Undefined Behavior" $log; then
            grep -m2 -A12 "Undefined Behavior" $log | head -30
            echo "violation: class=miri-undefined-behavior engine-of=$1"
            echo "VIOLATION property=C19 replay=$log"
            rc=1
        fi
        miri_note="$miri_note $1:$2runs(exit $r)"
    done
    echo "C19 memory-safety half: Miri (tree borrows) sample:$miri_note"
fi
if [ $noev -eq 0 ]; then
python3 - "$summary" "$asan_total" "$miri_note" "$rc" <<'PY'
import json, sys
p = '/verif/evidence/C19.json'
ev = json.load(open(p))
ev['coverage']['sanitizer_reruns'] = {
    'address_sanitizer_runs_per_engine': dict(x.split(':') for x in sys.argv[1].split()),
    'address_sanitizer_total_runs': int(sys.argv[2]),
    'miri_tree_borrows_sample': sys.argv[3].strip(),
    'note': 'same simulator crate, same seeds (VERIF_SEED), built with -Zsanitizer=address on the nightly toolchain; Miri cannot cross the zlib FFI (C16) and is far too slow for the net/snapsync/teehist engines, which are ASan-only',
}
if int(sys.argv[4]) == 1 and ev.get('violations', 0) == 0:
    ev['violations'] = 1
json.dump(ev, open(p, 'w'), indent=1)
PY
fi
exit $rc
