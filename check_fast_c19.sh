#!/bin/sh
# buffer engine only (no sanitizer re-run): used by the seeded-change loop
cd /verif/sim && cargo build --release --offline >/dev/null 2>&1 && exec ./target/release/tw2sim C19 quick --no-evidence
