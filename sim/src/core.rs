//! Engine-independent machinery: seeded batch runner, panic capture, ddmin
//! shrinking, replay files, known findings, evidence.

use crate::prng::{mix, TraceHash};
use serde::de::DeserializeOwned;
use serde::{Deserialize, Serialize};
use serde_json::{json, Value};
use std::cell::RefCell;
use std::collections::{BTreeMap, BTreeSet, HashSet};
use std::panic::{self, AssertUnwindSafe};
use std::path::{Path, PathBuf};
use std::sync::atomic::{AtomicBool, AtomicU64, Ordering};
use std::sync::Mutex;
use std::time::{Duration, Instant};

pub const VERIF_DIR: &str = "/verif";

#[derive(Clone, Copy, Debug, PartialEq, Eq)]
pub enum Tier {
    Quick,
    Thorough,
}

impl Tier {
    pub fn name(self) -> &'static str {
        match self {
            Tier::Quick => "quick",
            Tier::Thorough => "thorough",
        }
    }
}

pub type Sig = BTreeMap<String, String>;

pub fn sig(pairs: &[(&str, &str)]) -> Sig {
    pairs
        .iter()
        .map(|(k, v)| (k.to_string(), v.to_string()))
        .collect()
}

#[derive(Clone, Debug)]
pub struct Violation {
    pub property: String,
    /// class + identifying keys; identity of a finding (no line numbers, no seeds).
    pub sig: Sig,
    pub observation: String,
}

impl Violation {
    pub fn new(property: &str, class: &str, keys: &[(&str, &str)], observation: String) -> Violation {
        let mut s = sig(keys);
        s.insert("class".into(), class.into());
        Violation {
            property: property.into(),
            sig: s,
            observation,
        }
    }
}

// ---------------------------------------------------------------------------
// Panic capture

#[derive(Clone, Debug)]
pub struct PanicInfo {
    pub msg: String,
    pub file: String,
    pub line: u32,
}

pub const BUDGET_MARKER: &str = "TW2SIM-BUDGET";

impl PanicInfo {
    pub fn is_budget(&self) -> bool {
        self.msg.starts_with(BUDGET_MARKER)
    }
    /// Message with digits collapsed, so that e.g. lengths do not split one finding into many.
    pub fn msg_class(&self) -> String {
        let mut out = String::new();
        let mut last_digit = false;
        for c in self.msg.chars().take(160) {
            if c.is_ascii_digit() {
                if !last_digit {
                    out.push('N');
                }
                last_digit = true;
            } else {
                out.push(c);
                last_digit = false;
            }
        }
        out
    }
    /// Path relative to the repository, independent of where it is checked out.
    pub fn file_class(&self) -> String {
        let f = self.file.replace('\\', "/");
        for marker in ["/repo/", "/registry/src/"] {
            if let Some(i) = f.find(marker) {
                let rest = &f[i + marker.len()..];
                if marker == "/registry/src/" {
                    // strip index dir
                    if let Some(j) = rest.find('/') {
                        return format!("registry:{}", &rest[j + 1..]);
                    }
                }
                return rest.to_string();
            }
        }
        f
    }
}

thread_local! {
    static LAST_PANIC: RefCell<Option<PanicInfo>> = RefCell::new(None);
    static GUARD_DEPTH: std::cell::Cell<u32> = std::cell::Cell::new(0);
}

pub fn install_panic_hook() {
    let verbose = std::env::var_os("TW2SIM_PANIC_VERBOSE").is_some();
    let default = panic::take_hook();
    panic::set_hook(Box::new(move |info| {
        let msg = if let Some(s) = info.payload().downcast_ref::<&str>() {
            s.to_string()
        } else if let Some(s) = info.payload().downcast_ref::<String>() {
            s.clone()
        } else {
            "<non-string panic payload>".to_string()
        };
        let (file, line) = info
            .location()
            .map(|l| (l.file().to_string(), l.line()))
            .unwrap_or_else(|| ("<unknown>".into(), 0));
        if GUARD_DEPTH.with(|d| d.get()) == 0 {
            // a panic outside any guarded call into the code under test is a harness bug, never a finding
            default(info);
            eprintln!("HARNESS-ERROR: harness panicked outside a guarded call: {} at {}:{}", msg, file, line);
            std::process::exit(2);
        }
        if verbose {
            default(info);
        }
        LAST_PANIC.with(|p| *p.borrow_mut() = Some(PanicInfo { msg, file, line }));
    }));
}

/// Runs `f`, converting a panic into an observation.
pub fn guard<T>(f: impl FnOnce() -> T) -> Result<T, PanicInfo> {
    LAST_PANIC.with(|p| *p.borrow_mut() = None);
    GUARD_DEPTH.with(|d| d.set(d.get() + 1));
    let result = panic::catch_unwind(AssertUnwindSafe(f));
    GUARD_DEPTH.with(|d| d.set(d.get() - 1));
    match result {
        Ok(v) => Ok(v),
        Err(_) => {
            let p = LAST_PANIC.with(|p| p.borrow_mut().take()).unwrap_or(PanicInfo {
                msg: "<panic without hook info>".into(),
                file: "<unknown>".into(),
                line: 0,
            });
            if p.file.starts_with("src/") && !p.msg.starts_with("TW2SIM-") {
                // a panic in the harness itself is never a finding
                eprintln!("HARNESS-ERROR: harness panicked: {} at {}:{}", p.msg, p.file, p.line);
                std::process::exit(2);
            }
            Err(p)
        }
    }
}

// ---------------------------------------------------------------------------
// Hard crashes (abort, SIGSEGV, ...) of the code under test: the batch runs in a
// child process; a signal handler names the run that was executing, the
// supervising parent turns that into a replay file and a VIOLATION line.

pub const CRASH_EXIT: i32 = 70;
const MAX_SLOTS: usize = 64;
#[allow(clippy::declare_interior_mutable_const)]
const SLOT_INIT: AtomicU64 = AtomicU64::new(0);
/// per worker: (run seed, run index + 1); index 0 = no run in progress
static CRASH_SLOT_SEED: [AtomicU64; MAX_SLOTS] = [SLOT_INIT; MAX_SLOTS];
static CRASH_SLOT_INDEX: [AtomicU64; MAX_SLOTS] = [SLOT_INIT; MAX_SLOTS];
static CRASH_HANDLER_ON: AtomicBool = AtomicBool::new(false);
thread_local! {
    static CRASH_SLOT: std::cell::Cell<usize> = const { std::cell::Cell::new(usize::MAX) };
}

pub fn crash_slot_enter(slot: usize) {
    CRASH_SLOT.with(|c| c.set(slot % MAX_SLOTS));
    #[cfg(all(unix, not(miri)))]
    if CRASH_HANDLER_ON.load(Ordering::Relaxed) {
        unsafe {
        // handlers run on their own stack so that a stack overflow is still reported
        let size = 64 * 1024;
        let stack = Box::leak(vec![0u8; size].into_boxed_slice());
        let ss = libc::stack_t { ss_sp: stack.as_mut_ptr() as *mut libc::c_void, ss_flags: 0, ss_size: size };
            libc::sigaltstack(&ss, std::ptr::null_mut());
        }
    }
}

pub fn crash_slot_set(seed: u64, index_plus_one: u64) {
    let slot = CRASH_SLOT.with(|c| c.get());
    if slot < MAX_SLOTS {
        CRASH_SLOT_SEED[slot].store(seed, Ordering::Relaxed);
        CRASH_SLOT_INDEX[slot].store(index_plus_one, Ordering::Relaxed);
    }
}

#[cfg(all(unix, not(miri)))]
extern "C" fn crash_handler(sig: libc::c_int) {
    // async-signal-safe: no allocation, only write(2) and _exit
    fn put(buf: &mut [u8; 160], n: &mut usize, s: &[u8]) {
        for &b in s {
            if *n < buf.len() {
                buf[*n] = b;
                *n += 1;
            }
        }
    }
    fn put_num(buf: &mut [u8; 160], n: &mut usize, mut v: u64) {
        let mut tmp = [0u8; 20];
        let mut k = 0;
        if v == 0 {
            tmp[0] = b'0';
            k = 1;
        }
        while v > 0 {
            tmp[k] = b'0' + (v % 10) as u8;
            v /= 10;
            k += 1;
        }
        while k > 0 {
            k -= 1;
            put(buf, n, &tmp[k..k + 1]);
        }
    }
    let slot = CRASH_SLOT.with(|c| c.get());
    let mut buf = [0u8; 160];
    let mut n = 0;
    put(&mut buf, &mut n, b"\nTW2SIM-CRASH signal=");
    put_num(&mut buf, &mut n, sig as u64);
    if slot < MAX_SLOTS && CRASH_SLOT_INDEX[slot].load(Ordering::Relaxed) > 0 {
        put(&mut buf, &mut n, b" seed=");
        put_num(&mut buf, &mut n, CRASH_SLOT_SEED[slot].load(Ordering::Relaxed));
        put(&mut buf, &mut n, b" run_index=");
        put_num(&mut buf, &mut n, CRASH_SLOT_INDEX[slot].load(Ordering::Relaxed) - 1);
    } else {
        put(&mut buf, &mut n, b" outside-any-run");
    }
    put(&mut buf, &mut n, b"\n");
    unsafe {
        libc::write(2, buf.as_ptr() as *const libc::c_void, n);
        libc::_exit(CRASH_EXIT);
    }
}

/// Installed in the child process only (not under a sanitizer or Miri, which report in their own way).
pub fn install_crash_handler() {
    CRASH_HANDLER_ON.store(true, Ordering::Relaxed);
    #[cfg(all(unix, not(miri)))]
    unsafe {
        for sig in [libc::SIGABRT, libc::SIGSEGV, libc::SIGBUS, libc::SIGILL, libc::SIGFPE] {
            let mut sa: libc::sigaction = std::mem::zeroed();
            sa.sa_sigaction = crash_handler as *const () as usize;
            sa.sa_flags = libc::SA_ONSTACK;
            libc::sigemptyset(&mut sa.sa_mask);
            libc::sigaction(sig, &sa, std::ptr::null_mut());
        }
    }
}

fn child_crashes(exe: &Path, prop: &str, file: &Path) -> Option<i32> {
    let out = std::process::Command::new(exe)
        .arg(prop)
        .arg("--replay")
        .arg(file)
        .arg("--quiet")
        .env("TW2SIM_CHILD", "1")
        .output()
        .ok()?;
    crash_signal_of(&out.status, &String::from_utf8_lossy(&out.stderr))
}

/// Some(signal) if the process ended in a hard crash.
pub fn crash_signal_of(status: &std::process::ExitStatus, stderr: &str) -> Option<i32> {
    if status.code() == Some(CRASH_EXIT) {
        let sig = stderr
            .lines()
            .rev()
            .find_map(|l| l.strip_prefix("TW2SIM-CRASH signal=").and_then(|r| r.split_whitespace().next().and_then(|x| x.parse().ok())))
            .unwrap_or(0);
        return Some(sig);
    }
    #[cfg(unix)]
    {
        use std::os::unix::process::ExitStatusExt;
        if let Some(s) = status.signal() {
            return Some(s);
        }
    }
    None
}

/// Parent side: the batch child was killed and no single run reproduces it (memory corruption whose effect
/// shows later, or a crash between runs). The replay file then names the batch itself; replaying it re-runs
/// that batch (same VERIF_SEED, run count and worker count) in a fresh process. Best effort: such crashes are
/// not guaranteed to repeat, which the file says.
pub fn handle_batch_crash<E: Engine>(e: &E, opts: &BatchOpts, index: Option<u64>, signal: i32) -> i32 {
    let prop = e.property();
    let (quick_runs, _) = e.budget();
    let runs = index.map(|i| i + 1 + 64).unwrap_or(opts.runs_override.unwrap_or(quick_runs));
    let mut sig: Sig = Sig::new();
    sig.insert("class".into(), "process-crash-in-batch".into());
    sig.insert("signal".into(), signal.to_string());
    let path = replay_path(prop, opts.seed, &sig);
    let _ = std::fs::create_dir_all(path.parent().unwrap());
    let obs = format!("the process running the batch was killed by signal {} inside the code under test; no single run reproduces it in a fresh process (memory corruption showing later?), so the replay re-runs the batch", signal);
    let rf = ReplayFile {
        engine: e.engine_name().into(),
        property: prop.into(),
        seed: opts.seed,
        signature: sig.clone(),
        observation: obs.clone(),
        original_ops: 0,
        case: json!({ "batch": { "verif_seed": opts.seed, "runs": runs, "workers": opts.workers, "tier": opts.tier.name() } }),
    };
    if std::fs::write(&path, serde_json::to_string_pretty(&rf).unwrap()).is_err() {
        eprintln!("HARNESS-ERROR: cannot write replay {}", path.display());
        return 2;
    }
    println!("violation: class=process-crash-in-batch seed={} run_index={:?} : {}", opts.seed, index, obs);
    println!("VIOLATION property={} replay={}", prop, path.display());
    if opts.write_evidence {
        let info = e.info();
        let ev = json!({
            "property_id": prop, "tier": opts.tier.name(), "seed": opts.seed, "level": "exploration",
            "coverage": { "evaluations": index.map(|i| i + 1).unwrap_or(0), "distinct_nontrivial": 0, "rule": info.rule,
                "samples": [ { "outcome": "process crash, not attributable to one run", "batch": rf.case } ],
                "components": { "real": info.real, "stub": info.stub } },
            "assumptions": info.assumptions, "wall_s": 0.0, "violations": 1,
        });
        let p = Path::new(VERIF_DIR).join("evidence").join(format!("{}.json", prop));
        let _ = std::fs::create_dir_all(p.parent().unwrap());
        let _ = std::fs::write(&p, serde_json::to_string_pretty(&ev).unwrap());
    }
    1
}

/// Parent side: the batch child died in run (`seed`, `index`). Builds, minimises and verifies the replay.
pub fn handle_crash<E: Engine>(e: &E, opts: &BatchOpts, seed: u64, index: u64, signal: i32) -> i32 {
    let prop = e.property();
    let exe = std::env::current_exe().unwrap();
    let case = e.generate(seed, opts.tier);
    let mut sig: Sig = Sig::new();
    sig.insert("class".into(), "process-crash".into());
    sig.insert("signal".into(), signal.to_string());
    let path = replay_path(prop, seed, &sig);
    let _ = std::fs::create_dir_all(path.parent().unwrap());
    let cand = path.with_extension("candidate.json");
    let write = |c: &Case<E::Cfg, E::Op>, p: &Path, obs: &str, orig: usize| {
        let rf = ReplayFile {
            engine: e.engine_name().into(),
            property: prop.into(),
            seed,
            signature: sig.clone(),
            observation: obs.into(),
            original_ops: orig,
            case: serde_json::to_value(c).unwrap(),
        };
        std::fs::write(p, serde_json::to_string_pretty(&rf).unwrap()).is_ok()
    };
    let crashes = |c: &Case<E::Cfg, E::Op>| -> bool { write(c, &cand, "", 0) && child_crashes(&exe, prop, &cand).is_some() };
    if !crashes(&case) {
        // e.g. heap corruption by an earlier run: the run that happened to be executing is not the culprit
        let _ = std::fs::remove_file(&cand);
        return handle_batch_crash(e, opts, Some(index), signal);
    }
    let deadline = Instant::now() + Duration::from_secs(if opts.tier == Tier::Quick { 30 } else { 90 });
    let small = shrink_with(e, &case, &crashes, deadline);
    let _ = std::fs::remove_file(&cand);
    let obs = format!("the process running the simulation was killed by signal {} (abort / memory fault) inside the code under test", signal);
    if !write(&small, &path, &obs, case.ops.len()) {
        eprintln!("HARNESS-ERROR: cannot write replay {}", path.display());
        return 2;
    }
    if child_crashes(&exe, prop, &path).is_none() {
        eprintln!("HARNESS-ERROR: replay {} did not crash again in a fresh process", path.display());
        return 2;
    }
    println!("violation: class=process-crash seed={} run_index={} ops {} -> {} : {}", seed, index, case.ops.len(), small.ops.len(), obs);
    println!("VIOLATION property={} replay={}", prop, path.display());
    if opts.write_evidence {
        let info = e.info();
        let ev = json!({
            "property_id": prop,
            "tier": opts.tier.name(),
            "seed": opts.seed,
            "level": "exploration",
            "coverage": {
                "evaluations": index + 1,
                "distinct_nontrivial": 0,
                "rule": info.rule,
                "samples": [ { "run_index": index, "seed": seed, "outcome": "process crash", "cfg": serde_json::to_value(&small.cfg).unwrap_or(Value::Null), "ops": small.ops.iter().take(40).map(|o| serde_json::to_value(o).unwrap_or(Value::Null)).collect::<Vec<_>>() } ],
                "note": "the batch process was killed by a signal inside the code under test; counters of the interrupted batch are lost, evaluations is a lower bound",
                "components": { "real": info.real, "stub": info.stub },
            },
            "assumptions": info.assumptions,
            "wall_s": 0.0,
            "violations": 1,
        });
        let p = Path::new(VERIF_DIR).join("evidence").join(format!("{}.json", prop));
        let _ = std::fs::create_dir_all(p.parent().unwrap());
        let _ = std::fs::write(&p, serde_json::to_string_pretty(&ev).unwrap());
    }
    1
}

// ---------------------------------------------------------------------------
// Per-run context

pub struct Ctx {
    pub counters: BTreeMap<&'static str, u64>,
    pub states: BTreeSet<u64>,
    pub trace: TraceHash,
    pub verbose: bool,
    pub log: Vec<String>,
    /// a fault fired while something was in flight / mid-operation
    pub fault_inflight: bool,
    /// an oracle-relevant event happened (the oracle had something to decide)
    pub oracle_event: bool,
    pub ops_executed: u64,
    pub sim_usec: u64,
    /// observation that belongs to a different property; ends the run, not reported here
    pub aborted_other: Option<String>,
}

impl Ctx {
    pub fn new(verbose: bool) -> Ctx {
        Ctx {
            counters: BTreeMap::new(),
            states: BTreeSet::new(),
            trace: TraceHash::new(),
            verbose,
            log: Vec::new(),
            fault_inflight: false,
            oracle_event: false,
            ops_executed: 0,
            sim_usec: 0,
            aborted_other: None,
        }
    }
    #[inline]
    pub fn count(&mut self, name: &'static str) {
        *self.counters.entry(name).or_insert(0) += 1;
    }
    #[inline]
    pub fn count_n(&mut self, name: &'static str, n: u64) {
        *self.counters.entry(name).or_insert(0) += n;
    }
    #[inline]
    pub fn state(&mut self, s: u64) {
        self.states.insert(s);
    }
    #[inline]
    pub fn t(&mut self, v: u64) {
        self.trace.add(v);
    }
    pub fn logf(&mut self, f: impl FnOnce() -> String) {
        if self.verbose {
            let s = f();
            self.log.push(s);
        }
    }
}

// ---------------------------------------------------------------------------
// Engine interface

#[derive(Clone, Debug, Serialize, Deserialize)]
pub struct Case<C, O> {
    pub cfg: C,
    pub ops: Vec<O>,
}

pub struct EngineInfo {
    pub rule: String,
    pub assumptions: Vec<String>,
    pub real: Vec<&'static str>,
    pub stub: Vec<&'static str>,
    /// probes that must be non-zero in a thorough batch
    pub required_probes: Vec<&'static str>,
    /// counter names that are fault kinds (reported under faults_fired)
    pub fault_kinds: Vec<&'static str>,
}

pub trait Engine: Sync {
    type Cfg: Clone + Serialize + DeserializeOwned + Send + Sync + std::fmt::Debug;
    type Op: Clone + Serialize + DeserializeOwned + Send + Sync + std::fmt::Debug;
    fn engine_name(&self) -> &'static str;
    fn property(&self) -> &'static str;
    /// Deterministic function of the seed (and tier: thorough may allow longer runs).
    fn generate(&self, seed: u64, tier: Tier) -> Case<Self::Cfg, Self::Op>;
    /// Pure function of the case and the code under test.
    fn execute(&self, case: &Case<Self::Cfg, Self::Op>, ctx: &mut Ctx) -> Option<Violation>;
    /// Simpler variants of one op (tried in order while shrinking).
    fn simplify_op(&self, _op: &Self::Op) -> Vec<Self::Op> {
        Vec::new()
    }
    fn simplify_cfg(&self, _cfg: &Self::Cfg) -> Vec<Self::Cfg> {
        Vec::new()
    }
    fn info(&self) -> EngineInfo;
    /// (quick run count, thorough wall seconds)
    fn budget(&self) -> (u64, u64);
}

pub fn run_seed(batch_seed: u64, engine: &str, property: &str, index: u64) -> u64 {
    let e = crate::prng::fnv1a(engine.as_bytes()) ^ crate::prng::fnv1a(property.as_bytes()).rotate_left(17);
    mix(batch_seed, e, index)
}

// ---------------------------------------------------------------------------
// Known findings

#[derive(Clone, Debug, Deserialize)]
pub struct KnownFinding {
    pub status: String,
    pub property: String,
    #[serde(default)]
    pub signature: Sig,
    #[serde(default)]
    pub what: String,
    #[serde(default)]
    pub commit: String,
}

pub fn load_known() -> Result<Vec<KnownFinding>, String> {
    let p = Path::new(VERIF_DIR).join("KNOWN_FINDINGS.json");
    if !p.exists() {
        return Ok(Vec::new());
    }
    let s = std::fs::read_to_string(&p).map_err(|e| format!("read {}: {}", p.display(), e))?;
    serde_json::from_str(&s).map_err(|e| format!("parse {}: {}", p.display(), e))
}

fn known_match<'a>(known: &'a [KnownFinding], v: &Violation) -> Option<&'a KnownFinding> {
    known
        .iter()
        .find(|k| k.status == "known" && k.property == v.property && k.signature == v.sig)
}

// ---------------------------------------------------------------------------
// Replay files

#[derive(Serialize, Deserialize)]
pub struct ReplayFile {
    pub engine: String,
    pub property: String,
    pub seed: u64,
    pub signature: Sig,
    pub observation: String,
    pub original_ops: usize,
    pub case: Value,
}

pub fn replay_path(property: &str, seed: u64, sig: &Sig) -> PathBuf {
    let dir = std::env::var("TW2SIM_REPLAY_DIR").unwrap_or_else(|_| format!("{}/replays", VERIF_DIR));
    let class = sig.get("class").cloned().unwrap_or_default();
    let sh = crate::prng::fnv1a(format!("{:?}", sig).as_bytes()) & 0xffff;
    Path::new(&dir).join(format!("{}-{}-{:04x}-{}.json", property, class, sh, seed))
}

// ---------------------------------------------------------------------------
// Shrinking (ddmin over the op list, then per-op and cfg simplification)

pub fn shrink<E: Engine>(
    e: &E,
    case: &Case<E::Cfg, E::Op>,
    target: &Sig,
    deadline: Instant,
) -> Case<E::Cfg, E::Op> {
    let still_fails = |c: &Case<E::Cfg, E::Op>| -> bool {
        let mut ctx = Ctx::new(false);
        match e.execute(c, &mut ctx) {
            Some(v) => &v.sig == target,
            None => false,
        }
    };
    shrink_with(e, case, &still_fails, deadline)
}

/// ddmin with an arbitrary oracle (in-process signature match, or "a fresh process crashes").
pub fn shrink_with<E: Engine>(
    e: &E,
    case: &Case<E::Cfg, E::Op>,
    still_fails: &dyn Fn(&Case<E::Cfg, E::Op>) -> bool,
    deadline: Instant,
) -> Case<E::Cfg, E::Op> {
    let mut cur = case.clone();
    // 1. ddmin: remove chunks of decreasing size
    let mut chunk = (cur.ops.len() / 2).max(1);
    while chunk >= 1 && Instant::now() < deadline {
        let mut i = 0;
        let mut removed_any = false;
        while i < cur.ops.len() && Instant::now() < deadline {
            let end = (i + chunk).min(cur.ops.len());
            let mut cand = cur.clone();
            cand.ops.drain(i..end);
            if still_fails(&cand) {
                cur = cand;
                removed_any = true;
            } else {
                i = end;
            }
        }
        if chunk == 1 && !removed_any {
            break;
        }
        if chunk > 1 {
            chunk /= 2;
        } else if !removed_any {
            break;
        }
    }
    // 2. simplify cfg
    let mut progress = true;
    let mut rounds = 0;
    while progress && rounds < 4 && Instant::now() < deadline {
        progress = false;
        rounds += 1;
        for cfg in e.simplify_cfg(&cur.cfg) {
            let cand = Case {
                cfg,
                ops: cur.ops.clone(),
            };
            if still_fails(&cand) {
                cur = cand;
                progress = true;
                break;
            }
        }
        // 3. simplify ops
        for i in 0..cur.ops.len() {
            if Instant::now() >= deadline {
                break;
            }
            for op in e.simplify_op(&cur.ops[i]) {
                let mut cand = cur.clone();
                cand.ops[i] = op;
                if still_fails(&cand) {
                    cur = cand;
                    progress = true;
                    break;
                }
            }
        }
        // 4. one more single-op removal pass
        let mut i = 0;
        while i < cur.ops.len() && Instant::now() < deadline {
            let mut cand = cur.clone();
            cand.ops.remove(i);
            if still_fails(&cand) {
                cur = cand;
                progress = true;
            } else {
                i += 1;
            }
        }
    }
    cur
}

// ---------------------------------------------------------------------------
// Batch runner

struct WorkerAgg {
    counters: BTreeMap<&'static str, u64>,
    states: BTreeSet<u64>,
    nontrivial_hashes: HashSet<u64>,
    all_hashes_acc: u64,
    runs: u64,
    nontrivial_runs: u64,
    fault_free_runs: u64,
    ops: u64,
    sim_usec: u64,
    aborted_other: u64,
    aborted_samples: Vec<String>,
}

struct Found<C, O> {
    index: u64,
    seed: u64,
    case: Case<C, O>,
    v: Violation,
}

pub struct BatchOpts {
    pub tier: Tier,
    pub seed: u64,
    pub workers: usize,
    /// overrides (self-tests)
    pub runs_override: Option<u64>,
    pub secs_override: Option<u64>,
    pub write_evidence: bool,
    /// print per-run trace hashes digest (determinism self-test)
    pub print_digest: bool,
}

pub fn run_batch<E: Engine>(e: &E, opts: &BatchOpts) -> i32 {
    let prop = e.property();
    let info = e.info();
    let known = match load_known() {
        Ok(k) => k,
        Err(err) => {
            eprintln!("HARNESS-ERROR: {}", err);
            return 2;
        }
    };
    let (quick_runs, thorough_secs) = e.budget();
    let (fixed_runs, time_budget): (u64, Option<Duration>) = match opts.tier {
        Tier::Quick => (opts.runs_override.unwrap_or(quick_runs), None),
        Tier::Thorough => (
            opts.runs_override.unwrap_or(quick_runs),
            Some(Duration::from_secs(opts.secs_override.unwrap_or(thorough_secs))),
        ),
    };
    println!(
        "tw2sim: property={} engine={} tier={} VERIF_SEED={} workers={} runs>={}{}",
        prop,
        e.engine_name(),
        opts.tier.name(),
        opts.seed,
        opts.workers,
        fixed_runs,
        time_budget
            .map(|d| format!(" wall-budget={}s", d.as_secs()))
            .unwrap_or_default()
    );
    let start = Instant::now();
    let stop = AtomicBool::new(false);
    let found: Mutex<Vec<Found<E::Cfg, E::Op>>> = Mutex::new(Vec::new());
    let known_hits: Mutex<BTreeMap<String, (u64, String)>> = Mutex::new(BTreeMap::new());
    let samples: Mutex<Vec<Value>> = Mutex::new(Vec::new());
    let workers = opts.workers.max(1);
    // watchdog state: per worker (current index + 1, start millis)
    let cur_index: Vec<AtomicU64> = (0..workers).map(|_| AtomicU64::new(0)).collect();
    let cur_start: Vec<AtomicU64> = (0..workers).map(|_| AtomicU64::new(0)).collect();
    let done_workers = AtomicU64::new(0);
    let hang_secs: u64 = std::env::var("TW2SIM_HANG_SECS")
        .ok()
        .and_then(|s| s.parse().ok())
        .unwrap_or(120);

    let aggs: Vec<WorkerAgg> = std::thread::scope(|scope| {
        let mut handles = Vec::new();
        for w in 0..workers {
            let stop = &stop;
            let found = &found;
            let known_hits = &known_hits;
            let known = &known;
            let samples = &samples;
            let cur_index = &cur_index;
            let cur_start = &cur_start;
            let done_workers = &done_workers;
            let info = &info;
            handles.push(scope.spawn(move || {
                crash_slot_enter(w);
                let mut agg = WorkerAgg {
                    counters: BTreeMap::new(),
                    states: BTreeSet::new(),
                    nontrivial_hashes: HashSet::new(),
                    all_hashes_acc: 0,
                    runs: 0,
                    nontrivial_runs: 0,
                    fault_free_runs: 0,
                    ops: 0,
                    sim_usec: 0,
                    aborted_other: 0,
                    aborted_samples: Vec::new(),
                };
                let mut i = w as u64;
                loop {
                    if stop.load(Ordering::Relaxed) {
                        break;
                    }
                    if i >= fixed_runs {
                        match time_budget {
                            None => break,
                            Some(b) => {
                                if start.elapsed() >= b {
                                    break;
                                }
                            }
                        }
                    }
                    let seed = run_seed(opts.seed, e.engine_name(), prop, i);
                    cur_start[w].store(start.elapsed().as_millis() as u64, Ordering::Relaxed);
                    cur_index[w].store(i + 1, Ordering::Relaxed);
                    crash_slot_set(seed, i + 1);
                    let case = e.generate(seed, opts.tier);
                    let mut ctx = Ctx::new(false);
                    let res = e.execute(&case, &mut ctx);
                    cur_index[w].store(0, Ordering::Relaxed);
                    crash_slot_set(0, 0);
                    agg.runs += 1;
                    agg.ops += ctx.ops_executed;
                    agg.sim_usec += ctx.sim_usec;
                    for (k, v) in &ctx.counters {
                        *agg.counters.entry(k).or_insert(0) += v;
                    }
                    let faults: u64 = info
                        .fault_kinds
                        .iter()
                        .map(|k| ctx.counters.get(k).copied().unwrap_or(0))
                        .sum();
                    if faults == 0 {
                        agg.fault_free_runs += 1;
                    }
                    agg.states.extend(ctx.states.iter().copied());
                    // order-independent digest of (index, hash) over all runs
                    agg.all_hashes_acc = agg
                        .all_hashes_acc
                        .wrapping_add(mix(i, ctx.trace.0, res.is_some() as u64));
                    if ctx.fault_inflight && ctx.oracle_event {
                        agg.nontrivial_runs += 1;
                        agg.nontrivial_hashes.insert(ctx.trace.0);
                    }
                    if let Some(a) = ctx.aborted_other.take() {
                        agg.aborted_other += 1;
                        if agg.aborted_samples.len() < 3 {
                            agg.aborted_samples.push(format!("seed={} {}", seed, a));
                        }
                    }
                    if i < 2 && opts.write_evidence {
                        // keep the first runs of the batch as written-out samples
                        let mut c2 = Ctx::new(true);
                        let _ = e.execute(&case, &mut c2);
                        let mut log = c2.log;
                        let total = log.len();
                        log.truncate(60);
                        samples.lock().unwrap().push(json!({
                            "run_index": i, "seed": seed,
                            "cfg": serde_json::to_value(&case.cfg).unwrap_or(Value::Null),
                            "n_ops": case.ops.len(),
                            "ops_head": case.ops.iter().take(40).map(|o| serde_json::to_value(o).unwrap_or(Value::Null)).collect::<Vec<_>>(),
                            "event_log_head": log, "event_log_len": total,
                            "outcome": if res.is_some() { "violation" } else { "ok" },
                        }));
                    }
                    if let Some(v) = res {
                        if let Some(k) = known_match(known, &v) {
                            let key = format!("{:?}", k.signature);
                            let mut kh = known_hits.lock().unwrap();
                            let ent = kh.entry(key).or_insert((0, k.what.clone()));
                            ent.0 += 1;
                        } else {
                            let mut f = found.lock().unwrap();
                            let distinct: BTreeSet<String> =
                                f.iter().map(|x| format!("{:?}", x.v.sig)).collect();
                            let key = format!("{:?}", v.sig);
                            if !distinct.contains(&key) || f.iter().any(|x| format!("{:?}", x.v.sig) == key && x.index > i) {
                                f.retain(|x| !(format!("{:?}", x.v.sig) == key && x.index > i));
                                if !f.iter().any(|x| format!("{:?}", x.v.sig) == key) {
                                    f.push(Found {
                                        index: i,
                                        seed,
                                        case: case.clone(),
                                        v,
                                    });
                                }
                            }
                            let n_distinct = f
                                .iter()
                                .map(|x| format!("{:?}", x.v.sig))
                                .collect::<BTreeSet<_>>()
                                .len();
                            // stop early once enough distinct unlisted violations are in hand
                            if n_distinct >= 3 || (opts.tier == Tier::Thorough && n_distinct >= 1 && agg.runs > 2000) {
                                stop.store(true, Ordering::Relaxed);
                            }
                        }
                    }
                    i += workers as u64;
                }
                done_workers.fetch_add(1, Ordering::Relaxed);
                agg
            }));
        }
        // watchdog (main thread of the scope)
        loop {
            if done_workers.load(Ordering::Relaxed) as usize == workers {
                break;
            }
            std::thread::sleep(Duration::from_millis(100));
            let now = start.elapsed().as_millis() as u64;
            for w in 0..workers {
                let idx = cur_index[w].load(Ordering::Relaxed);
                let st = cur_start[w].load(Ordering::Relaxed);
                if idx != 0 && now.saturating_sub(st) > hang_secs * 1000 {
                    // a call that touches no seam never returned
                    let i = idx - 1;
                    let seed = run_seed(opts.seed, e.engine_name(), prop, i);
                    let case = e.generate(seed, opts.tier);
                    let s = sig(&[("class", "hang")]);
                    let path = replay_path(prop, seed, &s);
                    let rf = ReplayFile {
                        engine: e.engine_name().into(),
                        property: prop.into(),
                        seed,
                        signature: s,
                        observation: format!("run did not finish within {} s wall clock (no seam was touched, so the per-call budget could not fire)", hang_secs),
                        original_ops: case.ops.len(),
                        case: serde_json::to_value(&case).unwrap_or(Value::Null),
                    };
                    let _ = std::fs::create_dir_all(path.parent().unwrap());
                    let _ = std::fs::write(&path, serde_json::to_string_pretty(&rf).unwrap());
                    println!("HANG seed={} run_index={}", seed, i);
                    println!("VIOLATION property={} replay={}", prop, path.display());
                    std::process::exit(1);
                }
            }
        }
        handles.into_iter().map(|h| h.join().expect("worker panicked (harness bug)")).collect()
    });

    // merge
    let mut counters: BTreeMap<&'static str, u64> = BTreeMap::new();
    let mut states: BTreeSet<u64> = BTreeSet::new();
    let mut hashes: HashSet<u64> = HashSet::new();
    let (mut runs, mut nontrivial_runs, mut fault_free, mut ops, mut sim_usec, mut aborted) = (0u64, 0u64, 0u64, 0u64, 0u64, 0u64);
    let mut digest = 0u64;
    let mut aborted_samples = Vec::new();
    for a in aggs {
        for (k, v) in a.counters {
            *counters.entry(k).or_insert(0) += v;
        }
        states.extend(a.states);
        hashes.extend(a.nontrivial_hashes);
        runs += a.runs;
        nontrivial_runs += a.nontrivial_runs;
        fault_free += a.fault_free_runs;
        ops += a.ops;
        sim_usec += a.sim_usec;
        aborted += a.aborted_other;
        digest = digest.wrapping_add(a.all_hashes_acc);
        aborted_samples.extend(a.aborted_samples);
    }
    let wall = start.elapsed().as_secs_f64();
    if opts.print_digest {
        println!("DIGEST runs={} digest={:016x}", runs, digest);
    }

    // known findings
    let kh = known_hits.into_inner().unwrap();
    for (_, (n, what)) in &kh {
        println!("KNOWN-FINDING: property={} {} (hit by {} runs)", prop, what, n);
    }

    // violations: shrink, write, verify in a fresh process
    let mut found = found.into_inner().unwrap();
    found.sort_by_key(|f| f.index);
    let mut exit = 0;
    let mut reported = 0;
    let mut seen = BTreeSet::new();
    for f in &found {
        let key = format!("{:?}", f.v.sig);
        if !seen.insert(key) {
            continue;
        }
        if reported >= 3 {
            break;
        }
        reported += 1;
        let deadline = Instant::now() + Duration::from_secs(if opts.tier == Tier::Quick { 20 } else { 60 });
        let small = shrink(e, &f.case, &f.v.sig, deadline);
        // re-execute for the final observation
        let mut c2 = Ctx::new(false);
        let obs = match e.execute(&small, &mut c2) {
            Some(v) if v.sig == f.v.sig => v.observation,
            _ => {
                eprintln!("HARNESS-ERROR: shrunk case does not reproduce in-process (seed {})", f.seed);
                return 2;
            }
        };
        let path = replay_path(prop, f.seed, &f.v.sig);
        let rf = ReplayFile {
            engine: e.engine_name().into(),
            property: prop.into(),
            seed: f.seed,
            signature: f.v.sig.clone(),
            observation: obs.clone(),
            original_ops: f.case.ops.len(),
            case: serde_json::to_value(&small).unwrap(),
        };
        if let Err(err) = std::fs::create_dir_all(path.parent().unwrap())
            .and_then(|_| std::fs::write(&path, serde_json::to_string_pretty(&rf).unwrap()))
        {
            eprintln!("HARNESS-ERROR: cannot write replay {}: {}", path.display(), err);
            return 2;
        }
        // fresh process must reproduce the same signature
        let exe = std::env::current_exe().unwrap();
        let out = std::process::Command::new(exe)
            .arg(prop)
            .arg("--replay")
            .arg(&path)
            .arg("--quiet")
            .output();
        match out {
            Ok(o) if o.status.code() == Some(1) => {}
            Ok(o) => {
                eprintln!(
                    "HARNESS-ERROR: replay {} did not reproduce in a fresh process (exit {:?})\n{}",
                    path.display(),
                    o.status.code(),
                    String::from_utf8_lossy(&o.stdout)
                );
                return 2;
            }
            Err(err) => {
                eprintln!("HARNESS-ERROR: cannot spawn replay: {}", err);
                return 2;
            }
        }
        println!(
            "violation: class={} seed={} run_index={} ops {} -> {} : {}",
            f.v.sig.get("class").cloned().unwrap_or_default(),
            f.seed,
            f.index,
            f.case.ops.len(),
            small.ops.len(),
            obs
        );
        println!("VIOLATION property={} replay={}", prop, path.display());
        exit = 1;
    }

    // reach (thorough only): a probe stuck at zero is a workload bug => harness error, not a violation
    let mut missing_probes = Vec::new();
    for p in &info.required_probes {
        if counters.get(p).copied().unwrap_or(0) == 0 {
            missing_probes.push(*p);
        }
    }

    if opts.write_evidence {
        let faults: BTreeMap<&str, u64> = info
            .fault_kinds
            .iter()
            .map(|k| (*k, counters.get(k).copied().unwrap_or(0)))
            .collect();
        let probes: BTreeMap<&str, u64> = counters
            .iter()
            .filter(|(k, _)| !info.fault_kinds.contains(k))
            .map(|(k, v)| (*k, *v))
            .collect();
        let per_hour = |x: u64| -> u64 {
            if wall > 0.0 {
                (x as f64 * 3600.0 / wall) as u64
            } else {
                0
            }
        };
        let mut smp = samples.into_inner().unwrap();
        smp.sort_by_key(|s| s["run_index"].as_u64().unwrap_or(0));
        let ev = json!({
            "property_id": prop,
            "tier": opts.tier.name(),
            "seed": opts.seed,
            "level": "exploration",
            "coverage": {
                "evaluations": runs,
                "distinct_nontrivial": hashes.len(),
                "rule": info.rule,
                "samples": smp,
                "nontrivial_runs": nontrivial_runs,
                "fault_free_runs": fault_free,
                "states": states.len(),
                "ops_executed": ops,
                "simulated_seconds": (sim_usec as f64) / 1e6,
                "faults_fired": faults,
                "probes": probes,
                "required_probes_at_zero": missing_probes,
                "runs_per_hour": per_hour(runs),
                "seeds_per_hour": per_hour(runs),
                "aborted_by_other_property": aborted,
                "aborted_by_other_property_samples": aborted_samples,
                "components": { "real": info.real, "stub": info.stub },
                "known_findings_hit": kh.iter().map(|(_, (n, what))| json!({"what": what, "runs": n})).collect::<Vec<_>>(),
                "batch_digest": format!("{:016x}", digest),
                "workers": workers,
            },
            "assumptions": info.assumptions,
            "wall_s": wall,
            "violations": if exit == 1 { reported } else { 0 },
        });
        let dir = Path::new(VERIF_DIR).join("evidence");
        let _ = std::fs::create_dir_all(&dir);
        let p = dir.join(format!("{}.json", prop));
        if let Err(err) = std::fs::write(&p, serde_json::to_string_pretty(&ev).unwrap()) {
            eprintln!("HARNESS-ERROR: cannot write evidence {}: {}", p.display(), err);
            return 2;
        }
    }
    println!(
        "tw2sim: property={} runs={} distinct_nontrivial={} states={} ops={} sim_s={:.0} aborted_other={} wall={:.1}s exit={}",
        prop,
        runs,
        hashes.len(),
        states.len(),
        ops,
        sim_usec as f64 / 1e6,
        aborted,
        wall,
        exit
    );
    if aborted * 5 > runs {
        // a check whose runs mostly end in somebody else's observation explores little: make it visible
        println!("REACH: {} of {} runs ended early with an observation that belongs to another property (e.g. {:?})", aborted, runs, aborted_samples.first());
    }
    if !missing_probes.is_empty() {
        println!("REACH: probes at zero: {:?}", missing_probes);
        if opts.tier == Tier::Thorough && exit == 0 && std::env::var_os("TW2SIM_REACH_STRICT").is_some() {
            return 2;
        }
    }
    exit
}

/// Replays one file. Exit 1 (+ VIOLATION line) if the recorded violation
/// reproduces, 0 if the run is clean, 2 on a different outcome / error.
pub fn replay<E: Engine>(e: &E, path: &Path, quiet: bool) -> i32 {
    let s = match std::fs::read_to_string(path) {
        Ok(s) => s,
        Err(err) => {
            eprintln!("HARNESS-ERROR: read {}: {}", path.display(), err);
            return 2;
        }
    };
    let rf: ReplayFile = match serde_json::from_str(&s) {
        Ok(r) => r,
        Err(err) => {
            eprintln!("HARNESS-ERROR: parse {}: {}", path.display(), err);
            return 2;
        }
    };
    let case: Case<E::Cfg, E::Op> = match serde_json::from_value(rf.case) {
        Ok(c) => c,
        Err(err) => {
            eprintln!("HARNESS-ERROR: case in {}: {}", path.display(), err);
            return 2;
        }
    };
    let mut ctx = Ctx::new(!quiet);
    crash_slot_enter(0);
    crash_slot_set(rf.seed, 1);
    let res = e.execute(&case, &mut ctx);
    crash_slot_set(0, 0);
    if !quiet {
        for l in &ctx.log {
            println!("  {}", l);
        }
    }
    match res {
        Some(v) => {
            println!("observation: {}", v.observation);
            println!("signature: {:?}", v.sig);
            if v.sig == rf.signature {
                println!("VIOLATION property={} replay={}", v.property, path.display());
                1
            } else {
                println!("DIFFERENT-SIGNATURE expected={:?}", rf.signature);
                // still a violation of the property, but not the recorded one
                println!("VIOLATION property={} replay={}", v.property, path.display());
                3
            }
        }
        None => {
            println!("replay clean: no violation (recorded: {:?})", rf.signature);
            0
        }
    }
}
