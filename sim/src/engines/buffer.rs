//! Engine `buffer` (C19, functional half): every backing store of the
//! uninitialized-buffer abstraction is driven by op histories in which readers
//! with simulated faults (short reads, zero-length reads, EINTR, hard errors)
//! fill the buffer, interleaved with writes, extends, nested views, capped
//! views and early exits; a plain `Vec<u8>` + capacity is the reference model.

use crate::core::*;
use crate::prng::{mix, Prng};
use arrayvec::ArrayVec;
use libtw2_buffer::{with_buffer, Buffer, BufferRef, CapacityError, ReadBuffer, ReadBufferMarker, ReadBufferRef, ToBufferRef};
use serde::{Deserialize, Serialize};
use std::io;

#[derive(Clone, Debug, Serialize, Deserialize)]
pub struct BufCfg {
    pub seed: u64,
    /// 0 Vec, 1 ArrayVec<[u8;16]>, 2 ArrayVec<[u8;64]>, 3 ArrayVec<[u8;2048]>, 4 slice, 5 slice reference
    pub store: u8,
    pub capacity: u16,
    pub pre_len: u16,
    /// Some(n): the whole view is capped at n bytes
    pub cap_at: Option<u16>,
    /// Some(m): a second cap stacked on the first (`x.cap_at(n).cap_at(m)`): the tighter one wins
    #[serde(default)]
    pub cap_at2: Option<u16>,
    /// top-level views are taken through the two-step API (`to_to_buffer_ref()` then `to_buffer_ref()`,
    /// possibly several times on the same intermediate) instead of `with_buffer`
    #[serde(default)]
    pub two_step: bool,
}

#[derive(Clone, Debug, Serialize, Deserialize, PartialEq)]
#[serde(tag = "op")]
pub enum BufOp {
    Write { len: u16, salt: u32 },
    Extend { len: u16, salt: u32 },
    /// extend from an iterator whose size_hint upper bound is loose (a filter): only the yielded bytes count
    ExtendLoose { len: u16, salt: u32 },
    /// inside a view: create the intermediate of a nested (optionally capped) view and drop it unused
    NestedDropUnused { cap_at: Option<u16> },
    /// one `read_buffer` call from a reader: fault 0 none, 1 short read, 2 zero-length read, 3 EINTR, 4 hard error,
    /// 5 a reader implementing `ReadBufferRef` itself that writes a prefix through the view and then fails, 6 the same succeeding
    Read { avail: u16, fault: u8, salt: u32 },
    /// the following `n` ops run inside a nested view (optionally capped)
    Nested { n: u8, cap_at: Option<u16>, #[serde(default)] cap_at2: Option<u16> },
    /// a `?`-style early exit: the closure returns right after a failed write of `len` bytes
    FailAndExit { len: u16 },
    /// end the current view here and open a new one on the same container
    Reopen,
    /// create the intermediate and drop it without ever using it
    DropUnused,
    /// the view itself (with whatever it already holds) is handed to the reader by value
    /// (`ReadBufferRef::read_buffer_ref`), which ends the view
    ReadRef { avail: u16, fault: u8, salt: u32 },
    /// two-step API only, and only while nothing was written through the current `BufferRef` (the
    /// constructor requires a zero count): drop it unused and take a new one from the same intermediate
    SplitView,
    /// the closure panics here (a crash at an arbitrary instant): the view is released during
    /// unwinding and must still commit what was written
    PanicExit,
    /// `extend` from an iterator that panics after yielding `after` bytes: the bytes stored before the
    /// panic are part of what the view wrote when it is released during unwinding
    ExtendPanics { len: u16, after: u16, salt: u32 },
    /// top level: `reader.read_buffer(container)` directly on the container (no view held by the caller);
    /// the returned slice is used after the library released its intermediate
    TopRead { avail: u16, fault: u8, salt: u32 },
    /// a reader that breaks the `Read` contract: it reports `extra` more bytes than the space it was given.
    /// The library refuses with a panic; the view released during that unwinding must not commit the bogus count
    ReadLies { avail: u16, extra: u16, salt: u32 },
    /// `extend(&mut it)` from an iterator that is not fused: it ends after `pause_at` bytes and would yield the
    /// remaining ones if asked again. One `extend` call stores the bytes up to the first end, a second call
    /// with the same iterator stores the rest
    ExtendResumable { len: u16, pause_at: u16, salt: u32 },
}

fn v(class: &str, keys: &[(&str, &str)], obs: String) -> Violation {
    Violation::new("C19", class, keys, obs)
}

/// A reader under simulation: never looks at the buffer it is given.
struct SimReader {
    data: Vec<u8>,
    fault: u16,
    rng: Prng,
}
impl io::Read for SimReader {
    fn read(&mut self, buf: &mut [u8]) -> io::Result<usize> {
        match self.fault {
            3 => return Err(io::Error::new(io::ErrorKind::Interrupted, "simulated EINTR")),
            4 => return Err(io::Error::new(io::ErrorKind::Other, "simulated I/O error")),
            2 => return Ok(0),
            _ => {}
        }
        if self.fault >= 100 {
            // contract violation: claims more than the space it was given
            let n = buf.len().min(self.data.len());
            buf[..n].copy_from_slice(&self.data[..n]);
            return Ok(buf.len() + (self.fault as usize - 99));
        }
        let mut n = buf.len().min(self.data.len());
        if self.fault == 1 && n > 1 {
            n = 1 + self.rng.usize_below(n - 1);
        }
        buf[..n].copy_from_slice(&self.data[..n]);
        self.data.drain(..n);
        Ok(n)
    }
}
unsafe impl ReadBufferMarker for SimReader {}

/// A reader that implements the safe `ReadBufferRef` trait itself (a decoder that fills the view
/// through `BufferRef::write`): it writes a prefix of its data and then fails, or succeeds.
struct DirectReader {
    data: Vec<u8>,
    /// bytes written before the failure (None: no failure)
    fail_after: Option<usize>,
}
impl io::Read for DirectReader {
    fn read(&mut self, _buf: &mut [u8]) -> io::Result<usize> {
        unreachable!("only used through ReadBufferRef")
    }
}
impl ReadBufferRef for DirectReader {
    fn read_buffer_ref<'d, 's>(&mut self, mut buf: BufferRef<'d, 's>) -> io::Result<&'d [u8]> {
        let room = buf.remaining();
        let n = match self.fail_after {
            Some(k) => k.min(self.data.len()).min(room),
            None => self.data.len().min(room),
        };
        buf.write(&self.data[..n]).expect("fits");
        if self.fail_after.is_some() {
            return Err(io::Error::new(io::ErrorKind::InvalidData, "simulated corrupt record after a partial decode"));
        }
        Ok(buf.initialized())
    }
}

/// An iterator that ends once after `pause_at` items and resumes when polled again.
struct Resumable<'a> {
    data: &'a [u8],
    pos: usize,
    pause_at: usize,
    paused: bool,
}
impl<'a> Iterator for Resumable<'a> {
    type Item = u8;
    fn next(&mut self) -> Option<u8> {
        if self.pos == self.pause_at && !self.paused {
            self.paused = true;
            return None;
        }
        let b = *self.data.get(self.pos)?;
        self.pos += 1;
        Some(b)
    }
}

fn bytes(seed: u64, salt: u32, len: usize) -> Vec<u8> {
    let mut r = Prng::new(mix(seed, salt as u64, 0x627566));
    let mut d = r.bytes(len);
    for (i, b) in d.iter_mut().enumerate() {
        // never zero, so that stale (zeroed) memory is distinguishable
        *b = (*b | 1) ^ ((i as u8) << 1);
        if *b == 0 {
            *b = 0x55;
        }
    }
    d
}

struct Run<'a> {
    cfg: &'a BufCfg,
    ops: &'a [BufOp],
    pos: usize,
    stats: Stats,
    viol: Option<Violation>,
    exit: bool,
    trace: u64,
    pending_readref: Option<(u16, u8, u32)>,
    split: bool,
    /// a contract-breaking reader is being served: the library's refusal (a panic in the buffer crate) is expected
    lying: bool,
}

const UNWIND_MARKER: &str = "TW2SIM-UNWIND simulated crash inside the closure";

#[derive(Default)]
struct Stats {
    writes_ok: u64,
    writes_refused: u64,
    reads_ok: u64,
    read_faults: [u64; 5],
    nested: u64,
    early_exits: u64,
    capped: u64,
    by_value_reads: u64,
    direct_reads: u64,
    splits: u64,
    unwinds: u64,
    top_reads: u64,
    lies: u64,
}

impl<'a> Run<'a> {
    /// Runs ops inside one view until `limit` ops are consumed, Reopen/exit. `model` = bytes this view has initialized.
    fn in_view(&mut self, b: &mut BufferRef, capacity: usize, model: &mut Vec<u8>, mut limit: usize, depth: u32) {
        while self.pos < self.ops.len() && limit > 0 && self.viol.is_none() && !self.exit {
            let op = match self.ops[self.pos].clone() {
                // a top-level read is an op of the container loop; inside a nested view or on a slice store it is an ordinary read
                BufOp::TopRead { avail, fault, salt } if depth > 0 || self.cfg.store >= 4 => BufOp::Read { avail, fault, salt },
                o => o,
            };
            match op {
                BufOp::TopRead { .. } => return,
                BufOp::ReadLies { avail, extra, salt } => {
                    self.pos += 1;
                    if depth > 0 {
                        continue;
                    }
                    let data = bytes(self.cfg.seed, salt, avail as usize);
                    let mut rd = SimReader { data, fault: 100 + (extra % 400), rng: Prng::new(1) };
                    self.exit = true;
                    self.lying = true;
                    self.stats.lies += 1;
                    let r = rd.read_buffer(&mut *b).map(|s| s.len());
                    // not refused: the one thing that must still hold is the capacity
                    self.lying = false;
                    let now = capacity.saturating_sub(b.remaining());
                    if b.remaining() > capacity || now > capacity || r.as_ref().map(|n| *n > capacity - model.len()).unwrap_or(false) {
                        self.viol = Some(v("over-reported-read-accepted", &[], format!("a reader reported more bytes than the {} it was given; read_buffer returned {:?} and the view now counts {} of {}", capacity - model.len(), r.ok(), now, capacity)));
                        return;
                    }
                    // accepted within the capacity (clamped): the bytes the view now holds beyond the model are whatever the library decided
                    let extra_bytes = now.saturating_sub(model.len());
                    model.extend(std::iter::repeat(0).take(extra_bytes));
                    self.viol = None;
                    self.pending_readref = None;
                    // the model cannot follow a clamped over-report: end the run here, quietly
                    self.pos = self.ops.len();
                    self.lying = true; // tells the container loop to skip the content comparison of this view
                    return;
                }
                BufOp::Reopen | BufOp::DropUnused if depth > 0 => {
                    // only meaningful at top level: ends the nested view
                    return;
                }
                BufOp::Reopen | BufOp::DropUnused => return,
                BufOp::SplitView => {
                    self.pos += 1;
                    // `BufferRef::new` requires a zero count: only an unused view may be replaced by a new one
                    if depth == 0 && self.cfg.two_step && model.is_empty() {
                        self.split = true;
                        self.stats.splits += 1;
                        return;
                    }
                    continue;
                }
                BufOp::ReadRef { avail, fault, salt } => {
                    self.pos += 1;
                    self.pending_readref = Some((avail, fault, salt));
                    return;
                }
                BufOp::ExtendPanics { len, after, salt } => {
                    self.pos += 1;
                    if depth > 0 {
                        continue;
                    }
                    let data = bytes(self.cfg.seed, salt, len as usize);
                    let k = (after as usize).min(data.len());
                    let room = capacity - model.len();
                    // bytes that fit and are yielded before the iterator gives up
                    let stored = k.min(room);
                    if k >= data.len() || k > room {
                        // the iterator ends (or the buffer refuses) before the panic point: an ordinary extend
                        let r = b.extend(data.iter().cloned());
                        let now = capacity.saturating_sub(b.remaining());
                        let expect = data.len().min(room);
                        if r.is_ok() != (data.len() <= room) || now != model.len() + expect {
                            self.viol = Some(v("count-wrong", &[("call", "extend")], format!("extend of {} bytes into {} remaining: ok={} count {} (expected {})", data.len(), room, r.is_ok(), now, model.len() + expect)));
                            return;
                        }
                        model.extend_from_slice(&data[..expect]);
                        continue;
                    }
                    model.extend_from_slice(&data[..stored]);
                    self.exit = true;
                    self.stats.unwinds += 1;
                    let mut n = 0usize;
                    let _ = b.extend(data.iter().cloned().inspect(|_| {
                        if n == k {
                            panic!("{}", UNWIND_MARKER);
                        }
                        n += 1;
                    }));
                    self.viol = Some(v("count-wrong", &[("call", "extend-panicking-iterator")], format!("extend returned although its iterator panics after {} of {} bytes with {} remaining", k, data.len(), room)));
                    return;
                }
                BufOp::PanicExit => {
                    self.pos += 1;
                    if depth > 0 {
                        // only at top level (the model of an unfinished nested view is not merged into its parent)
                        continue;
                    }
                    self.exit = true;
                    self.stats.unwinds += 1;
                    panic!("{}", UNWIND_MARKER);
                }
                _ => {}
            }
            self.pos += 1;
            limit -= 1;
            let remaining_before = capacity - model.len();
            self.trace = mix(self.trace, remaining_before as u64 * 16 + depth as u64, match &op { BufOp::Write { len, .. } => 100 + *len as u64, BufOp::Extend { len, .. } => 10_000 + *len as u64, BufOp::Read { avail, fault, .. } => 100_000 + (*avail as u64) * 8 + *fault as u64, BufOp::TopRead { avail, fault, .. } => 7_000_000 + (*avail as u64) * 8 + *fault as u64, BufOp::Nested { n, cap_at, cap_at2 } => 1_000_000 + (*n as u64) * 70_000 + cap_at.map(|c| c as u64 + 1).unwrap_or(0) + cap_at2.map(|c| (c as u64 + 1) * 7).unwrap_or(0), BufOp::ExtendLoose { len, .. } => 5_000_000 + *len as u64, BufOp::ExtendResumable { len, pause_at, .. } => 8_000_000 + (*len as u64) * 70_000 + *pause_at as u64, BufOp::NestedDropUnused { cap_at } => 6_000_000 + cap_at.map(|c| c as u64 + 1).unwrap_or(0), BufOp::FailAndExit { .. } => 3, _ => 4 });
            if b.remaining() != remaining_before {
                self.viol = Some(v("remaining-wrong", &[], format!("remaining() = {} but capacity {} - {} written = {}", b.remaining(), capacity, model.len(), remaining_before)));
                return;
            }
            match op {
                BufOp::Write { len, salt } | BufOp::Extend { len, salt } => {
                    let data = bytes(self.cfg.seed, salt, len as usize);
                    let is_ext = matches!(op, BufOp::Extend { .. });
                    let r: Result<(), CapacityError> = if is_ext { b.extend(data.iter().cloned()) } else { b.write(&data) };
                    let now = capacity.saturating_sub(b.remaining());
                    match r {
                        Ok(()) => {
                            if data.len() > remaining_before {
                                self.viol = Some(v("overflow-accepted", &[("call", if is_ext { "extend" } else { "write" })], format!("writing {} bytes into {} remaining returned Ok", data.len(), remaining_before)));
                                return;
                            }
                            if now != model.len() + data.len() {
                                self.viol = Some(v("count-wrong", &[("call", if is_ext { "extend" } else { "write" })], format!("after writing {} bytes the view counts {} initialized, expected {}", data.len(), now, model.len() + data.len())));
                                return;
                            }
                            model.extend_from_slice(&data);
                            self.stats.writes_ok += 1;
                        }
                        Err(CapacityError) => {
                            if data.len() <= remaining_before {
                                self.viol = Some(v("fitting-write-refused", &[("call", if is_ext { "extend" } else { "write" })], format!("writing {} bytes into {} remaining returned CapacityError", data.len(), remaining_before)));
                                return;
                            }
                            if now > capacity || now < model.len() {
                                self.viol = Some(v("count-wrong", &[("call", "refused-write")], format!("after a refused write the view counts {} initialized (capacity {}, before {})", now, capacity, model.len())));
                                return;
                            }
                            // whatever was written before the refusal must be a prefix of the data
                            let p = now - model.len();
                            model.extend_from_slice(&data[..p]);
                            self.stats.writes_refused += 1;
                        }
                    }
                }
                BufOp::Read { avail, fault, salt } if fault % 7 >= 5 => {
                    // a reader implementing ReadBufferRef directly: partial decode then error (5), or success (6)
                    let data = bytes(self.cfg.seed, salt, avail as usize);
                    let failing = fault % 7 == 5;
                    let k = if failing { Some((salt as usize >> 3) % (data.len() + 1)) } else { None };
                    let expect_n = k.unwrap_or(data.len()).min(data.len()).min(remaining_before);
                    let mut rd = DirectReader { data: data.clone(), fail_after: k };
                    let r = rd.read_buffer(&mut *b).map(|s| s.to_vec());
                    let now = capacity.saturating_sub(b.remaining());
                    self.stats.direct_reads += 1;
                    if failing {
                        self.stats.read_faults[4] += 1;
                    }
                    if r.is_ok() == failing {
                        self.viol = Some(v("read-result-wrong", &[("fault", "direct-reader")], format!("a reader that {} produced {}", if failing { "failed" } else { "succeeded" }, if r.is_ok() { "Ok" } else { "Err" })));
                        return;
                    }
                    // whatever the reader wrote through the view stays written, error or not
                    if now != model.len() + expect_n {
                        self.viol = Some(v(if failing { "bytes-written-before-error-lost" } else { "count-wrong" }, &[("call", "read_buffer-direct")], format!("a reader wrote {} bytes through the view and then {}; the parent counts {} initialized, expected {}", expect_n, if failing { "failed" } else { "returned" }, now, model.len() + expect_n)));
                        return;
                    }
                    if let Ok(got) = &r {
                        if got[..] != data[..expect_n] {
                            self.viol = Some(v("read-result-wrong", &[("fault", "direct-reader")], "the bytes returned differ from the bytes written".into()));
                            return;
                        }
                    }
                    model.extend_from_slice(&data[..expect_n]);
                }
                BufOp::Read { avail, fault, salt } => {
                    let data = bytes(self.cfg.seed, salt, avail as usize);
                    let fault = fault % 7;
                    let mut rd = SimReader { data: data.clone(), fault: fault as u16, rng: Prng::new(mix(self.cfg.seed, salt as u64, 7)) };
                    let r = rd.read_buffer(&mut *b).map(|s| s.to_vec());
                    let now = capacity.saturating_sub(b.remaining());
                    self.stats.read_faults[fault as usize] += 1;
                    match r {
                        Ok(got) => {
                            if fault >= 3 {
                                self.viol = Some(v("read-error-swallowed", &[], "a failing reader produced Ok".into()));
                                return;
                            }
                            if got.len() > remaining_before || got[..] != data[..got.len()] || now != model.len() + got.len() {
                                self.viol = Some(v("read-result-wrong", &[("fault", &fault.to_string())], format!("read_buffer returned {} bytes (reader had {}, {} remaining); view counts {} initialized, expected {}; bytes match = {}", got.len(), data.len(), remaining_before, now, model.len() + got.len(), got.len() <= data.len() && got[..] == data[..got.len().min(data.len())])));
                                return;
                            }
                            if fault == 2 && !got.is_empty() {
                                self.viol = Some(v("read-result-wrong", &[("fault", "zero")], "a zero-length read produced bytes".into()));
                                return;
                            }
                            model.extend_from_slice(&got);
                            self.stats.reads_ok += 1;
                        }
                        Err(_) => {
                            if fault < 3 {
                                self.viol = Some(v("read-result-wrong", &[("fault", "spurious-error")], "read_buffer failed although the reader did not".into()));
                                return;
                            }
                            if now != model.len() {
                                self.viol = Some(v("errored-read-added-bytes", &[], format!("a failed read changed the initialized count from {} to {}", model.len(), now)));
                                return;
                            }
                        }
                    }
                }
                BufOp::ExtendResumable { len, pause_at, salt } => {
                    let data = bytes(self.cfg.seed, salt, len as usize);
                    let pause_at = (pause_at as usize).min(data.len());
                    let mut it = Resumable { data: &data, pos: 0, pause_at, paused: false };
                    let mut done = 0usize; // bytes of `data` the model has accounted for
                    for (call, upto) in [(1, pause_at), (2, data.len())] {
                        let room = capacity - model.len();
                        let want = upto - done;
                        let r = b.extend(&mut it);
                        let now = capacity.saturating_sub(b.remaining());
                        let stored = want.min(room);
                        if r.is_ok() != (want <= room) || now != model.len() + stored {
                            self.viol = Some(v(if r.is_err() && want <= room { "fitting-write-refused" } else { "count-wrong" }, &[("call", "extend-resumable-iterator")], format!("extend call #{} from an iterator that ends after {} more bytes ({} remaining): ok={} and the view counts {} initialized, expected ok={} and {}", call, want, room, r.is_ok(), now, want <= room, model.len() + stored)));
                            return;
                        }
                        model.extend_from_slice(&data[done..done + stored]);
                        if r.is_err() {
                            self.stats.writes_refused += 1;
                            break;
                        }
                        self.stats.writes_ok += 1;
                        done = upto;
                    }
                }
                BufOp::ExtendLoose { len, salt } => {
                    let data = bytes(self.cfg.seed, salt, len as usize);
                    let kept: Vec<u8> = data.iter().cloned().filter(|b| b % 3 != 0).collect();
                    let r = b.extend(data.iter().cloned().filter(|b| b % 3 != 0));
                    let now = capacity.saturating_sub(b.remaining());
                    match r {
                        Ok(()) => {
                            if kept.len() > remaining_before {
                                self.viol = Some(v("overflow-accepted", &[("call", "extend-filter")], format!("extending by {} bytes into {} remaining returned Ok", kept.len(), remaining_before)));
                                return;
                            }
                            if now != model.len() + kept.len() {
                                self.viol = Some(v("count-wrong", &[("call", "extend-filter")], format!("after an extend from a filtering iterator that yielded {} bytes (upper bound {}) the view counts {} initialized, expected {}", kept.len(), data.len(), now, model.len() + kept.len())));
                                return;
                            }
                            model.extend_from_slice(&kept);
                            self.stats.writes_ok += 1;
                        }
                        Err(CapacityError) => {
                            if kept.len() <= remaining_before {
                                self.viol = Some(v("fitting-write-refused", &[("call", "extend-filter")], format!("extending by {} bytes into {} remaining returned CapacityError", kept.len(), remaining_before)));
                                return;
                            }
                            if now > capacity || now < model.len() {
                                self.viol = Some(v("count-wrong", &[("call", "refused-write")], format!("count {} after refused extend (capacity {})", now, capacity)));
                                return;
                            }
                            let p = now - model.len();
                            model.extend_from_slice(&kept[..p]);
                            self.stats.writes_refused += 1;
                        }
                    }
                }
                BufOp::NestedDropUnused { cap_at } => {
                    {
                        use libtw2_buffer::Buffer as _;
                        match cap_at {
                            Some(c) => drop((&mut *b).cap_at(c as usize).to_to_buffer_ref()),
                            None => drop((&mut *b).to_to_buffer_ref()),
                        }
                    }
                    let now = capacity.saturating_sub(b.remaining());
                    if now != model.len() {
                        self.viol = Some(v("unused-view-changed-container", &[("store", "nested")], format!("dropping an unused nested view changed the parent's initialized count from {} to {}", model.len(), now)));
                        return;
                    }
                    self.stats.nested += 1;
                }
                BufOp::Nested { n, cap_at, cap_at2 } => {
                    self.stats.nested += 1;
                    let cap_at2 = if cap_at.is_some() { cap_at2 } else { None };
                    let inner_cap = match cap_at {
                        Some(c) => {
                            self.stats.capped += 1;
                            (c as usize).min(remaining_before).min(cap_at2.map(|c| c as usize).unwrap_or(usize::MAX))
                        }
                        None => remaining_before,
                    };
                    let mut inner_model: Vec<u8> = Vec::new();
                    let n = n as usize;
                    match (cap_at, cap_at2) {
                        (Some(c), Some(c2)) => with_buffer((&mut *b).cap_at(c as usize).cap_at(c2 as usize), |mut ib| { self.in_view(&mut ib, inner_cap, &mut inner_model, n, depth + 1); self.finish_view(ib, inner_cap, &mut inner_model); }),
                        (Some(c), None) => with_buffer((&mut *b).cap_at(c as usize), |mut ib| { self.in_view(&mut ib, inner_cap, &mut inner_model, n, depth + 1); self.finish_view(ib, inner_cap, &mut inner_model); }),
                        _ => with_buffer(&mut *b, |mut ib| { self.in_view(&mut ib, inner_cap, &mut inner_model, n, depth + 1); self.finish_view(ib, inner_cap, &mut inner_model); }),
                    }
                    if self.viol.is_some() {
                        return;
                    }
                    // the parent's count grows by exactly what the nested view initialized
                    let now = capacity.saturating_sub(b.remaining());
                    if now != model.len() + inner_model.len() {
                        self.viol = Some(v("nested-release-count-wrong", &[("capped", if cap_at.is_some() { "yes" } else { "no" })], format!("after releasing a nested view that initialized {} bytes the parent counts {} (before {})", inner_model.len(), now, model.len())));
                        return;
                    }
                    model.extend_from_slice(&inner_model);
                }
                BufOp::FailAndExit { len } => {
                    // a write that cannot fit, followed by an early return out of the closure
                    let need = remaining_before + 1 + len as usize;
                    let data = bytes(self.cfg.seed, len as u32, need.min(5000));
                    if data.len() > remaining_before {
                        let r = b.write(&data);
                        if r.is_ok() {
                            self.viol = Some(v("overflow-accepted", &[("call", "write")], format!("writing {} bytes into {} remaining returned Ok", data.len(), remaining_before)));
                            return;
                        }
                        let now = capacity.saturating_sub(b.remaining());
                        if now > capacity || now < model.len() {
                            self.viol = Some(v("count-wrong", &[("call", "refused-write")], format!("count {} after refused write (capacity {})", now, capacity)));
                            return;
                        }
                        let p = now - model.len();
                        model.extend_from_slice(&data[..p]);
                        self.stats.early_exits += 1;
                        self.exit = true;
                        return;
                    }
                }
                BufOp::Reopen | BufOp::DropUnused | BufOp::SplitView | BufOp::ReadRef { .. } | BufOp::PanicExit | BufOp::ExtendPanics { .. } | BufOp::TopRead { .. } | BufOp::ReadLies { .. } => unreachable!(),
            }
        }
    }

    /// Ends a view: performs a pending by-value read, then checks the view's own report of what it holds.
    fn finish_view(&mut self, b: BufferRef, capacity: usize, model: &mut Vec<u8>) -> Vec<u8> {
        if self.viol.is_some() {
            return b.initialized().to_vec();
        }
        match self.pending_readref.take() {
            None => {
                let got = b.initialized().to_vec();
                self.check_initialized(&got, model);
                got
            }
            Some((avail, fault, salt)) => {
                let remaining_before = capacity - model.len();
                if b.remaining() != remaining_before {
                    self.viol = Some(v("remaining-wrong", &[], format!("remaining() = {} but capacity {} - {} written = {}", b.remaining(), capacity, model.len(), remaining_before)));
                    return Vec::new();
                }
                let data = bytes(self.cfg.seed, salt, avail as usize);
                let fault = fault % 5;
                let mut rd = SimReader { data: data.clone(), fault: fault as u16, rng: Prng::new(mix(self.cfg.seed, salt as u64, 7)) };
                self.stats.read_faults[fault as usize] += 1;
                self.stats.by_value_reads += 1;
                let r = rd.read_buffer_ref(b).map(|s| s.to_vec());
                match r {
                    Ok(all) => {
                        if fault >= 3 {
                            self.viol = Some(v("read-error-swallowed", &[], "a failing reader produced Ok".into()));
                            return all;
                        }
                        // the view reports everything it holds: what was there before, then the bytes just read
                        let ok = all.len() >= model.len() && all[..model.len()] == model[..] && {
                            let new = &all[model.len()..];
                            new.len() <= remaining_before && new.len() <= data.len() && new[..] == data[..new.len()] && !(fault == 2 && !new.is_empty())
                        };
                        if !ok {
                            self.viol = Some(v("read-result-wrong", &[("fault", &fault.to_string()), ("call", "read_buffer_ref")], format!("a by-value read into a view already holding {} bytes ({} remaining, reader had {}) reported {} initialized bytes; old bytes intact = {}", model.len(), remaining_before, data.len(), all.len(), all.len() >= model.len() && all[..model.len()] == model[..])));
                            return all;
                        }
                        *model = all.clone();
                        self.stats.reads_ok += 1;
                        all
                    }
                    Err(_) => {
                        if fault < 3 {
                            self.viol = Some(v("read-result-wrong", &[("fault", "spurious-error")], "read_buffer_ref failed although the reader did not".into()));
                        }
                        model.clone()
                    }
                }
            }
        }
    }

    /// Checks the view's own report of what it holds.
    fn check_initialized(&mut self, got: &[u8], model: &[u8]) {
        if self.viol.is_none() && got != model {
            let at = got.iter().zip(model.iter()).position(|(a, b)| a != b);
            self.viol = Some(v("initialized-bytes-wrong", &[], format!("initialized() reports {} bytes, the model holds {} (first difference at {:?})", got.len(), model.len(), at)));
        }
    }
}

pub struct BufEngine;

impl BufEngine {
    /// Runs the whole history against one container kind; `container_after` returns (len, contents) after release.
    fn run_store(run: &mut Run, ctx: &mut Ctx) {
        let cfg = run.cfg;
        let cap = cfg.capacity as usize;
        let pre: Vec<u8> = (0..cfg.pre_len as usize).map(|i| 0xA0 | (i as u8 & 0xf)).collect();
        macro_rules! drive {
            ($container:expr, $mk:expr, $remaining:expr, $content:expr, $storage:expr) => {{
                // $mk: how to obtain a `Buffer` from the container; loops over views (Reopen / DropUnused)
                let mut expected: Vec<u8> = $content(&$container);
                // (address, capacity) of the container's storage: the abstraction never reallocates or grows it
                let storage0: (usize, usize) = $storage(&$container);
                loop {
                    if run.viol.is_some() {
                        break;
                    }
                    if $storage(&$container) != storage0 {
                        let now: (usize, usize) = $storage(&$container);
                        run.viol = Some(v("container-storage-changed", &[("store", &cfg.store.to_string())], format!("the container's storage was {} bytes at {:#x} and is now {} bytes at {:#x}: a view went past the capacity it was given (or slices handed out earlier now dangle)", storage0.1, storage0.0, now.1, now.0)));
                        break;
                    }
                    if let Some(BufOp::TopRead { avail, fault, salt }) = run.ops.get(run.pos).cloned() {
                        run.pos += 1;
                        let remaining: usize = $remaining(&$container);
                        let cap2 = if cfg.cap_at.is_some() { cfg.cap_at2 } else { None };
                        let view_cap = match cfg.cap_at {
                            Some(c) => (c as usize).min(remaining).min(cap2.map(|c| c as usize).unwrap_or(usize::MAX)),
                            None => remaining,
                        };
                        let data = bytes(cfg.seed, salt, avail as usize);
                        let fault = fault % 5;
                        let mut rd = SimReader { data: data.clone(), fault: fault as u16, rng: Prng::new(mix(cfg.seed, salt as u64, 7)) };
                        run.stats.read_faults[fault as usize] += 1;
                        run.stats.top_reads += 1;
                        let r: Result<io::Result<&[u8]>, PanicInfo> = guard(|| match cfg.cap_at {
                            Some(c) if cap2.is_some() => rd.read_buffer($mk(&mut $container).cap_at(c as usize).cap_at(cap2.unwrap() as usize)),
                            Some(c) => rd.read_buffer($mk(&mut $container).cap_at(c as usize)),
                            None => rd.read_buffer($mk(&mut $container)),
                        });
                        let r = match r {
                            Ok(r) => r,
                            Err(p) => {
                                run.viol = Some(v("panic", &[("message", &p.msg_class()), ("file", &p.file_class())], format!("read_buffer on the container panicked: {} at {}:{}", p.msg, p.file, p.line)));
                                break;
                            }
                        };
                        // the intermediate is gone; the slice handed out is still the caller's to use
                        let storage_now: (usize, usize) = $storage(&$container);
                        // a changed capacity is reported as such (whether the allocator moved the block or grew it in
                        // place is not reproducible; the capacity is)
                        if storage_now.1 != storage0.1 {
                            run.viol = Some(v("container-storage-changed", &[("store", &cfg.store.to_string())], format!("the container's storage was {} bytes and is {} bytes after read_buffer on the container: a view went past the capacity it was given (or slices handed out earlier now dangle)", storage0.1, storage_now.1)));
                            break;
                        }
                        match r {
                            Ok(got) => {
                                if fault >= 3 {
                                    run.viol = Some(v("read-error-swallowed", &[("call", "top-read")], "a failing reader produced Ok".into()));
                                    break;
                                }
                                let (gp, gl) = (got.as_ptr() as usize, got.len());
                                if gl > view_cap || gl > data.len() || (fault == 2 && gl != 0) {
                                    run.viol = Some(v("read-result-wrong", &[("call", "top-read"), ("fault", &fault.to_string())], format!("read_buffer on the container returned {} bytes ({} remaining, reader had {})", gl, view_cap, data.len())));
                                    break;
                                }
                                if gl > 0 && !(gp >= storage_now.0 && gp + gl <= storage_now.0 + storage_now.1) {
                                    run.viol = Some(v("returned-slice-outside-container", &[("store", &cfg.store.to_string())], format!("the {} bytes returned by read_buffer lie at {:#x}, outside the container's storage ({} bytes at {:#x}) once the view is released", gl, gp, storage_now.1, storage_now.0)));
                                    break;
                                }
                                if got[..] != data[..gl] {
                                    run.viol = Some(v("read-result-wrong", &[("call", "top-read"), ("fault", &fault.to_string())], "the slice returned by read_buffer does not hold the bytes read once the view is released".into()));
                                    break;
                                }
                                expected.extend_from_slice(&data[..gl]);
                                run.stats.reads_ok += 1;
                            }
                            Err(_) => {
                                if fault < 3 {
                                    run.viol = Some(v("read-result-wrong", &[("call", "top-read"), ("fault", "spurious-error")], "read_buffer failed although the reader did not".into()));
                                    break;
                                }
                            }
                        }
                        let after: Vec<u8> = $content(&$container);
                        if after != expected {
                            run.viol = Some(v("container-after-release-wrong", &[("store", &cfg.store.to_string()), ("what", if after.len() != expected.len() { "length" } else { "contents" }), ("call", "top-read")], format!("after read_buffer on the container it holds {} bytes, expected {}", after.len(), expected.len())));
                            break;
                        }
                        ctx.oracle_event = true;
                        if run.pos >= run.ops.len() {
                            break;
                        }
                        continue;
                    }
                    if run.pos < run.ops.len() && run.ops[run.pos] == BufOp::DropUnused {
                        run.pos += 1;
                        {
                            let inter = $mk(&mut $container).to_to_buffer_ref();
                            drop(inter);
                        }
                        let after: Vec<u8> = $content(&$container);
                        if after != expected {
                            run.viol = Some(v("unused-view-changed-container", &[("store", &cfg.store.to_string())], format!("dropping an unused view changed the container from {} to {} bytes", expected.len(), after.len())));
                        }
                        continue;
                    }
                    if run.pos < run.ops.len() && run.ops[run.pos] == BufOp::Reopen {
                        run.pos += 1;
                    }
                    let remaining: usize = $remaining(&$container);
                    let cap2 = if cfg.cap_at.is_some() { cfg.cap_at2 } else { None };
                    let view_cap = match cfg.cap_at {
                        Some(c) => (c as usize).min(remaining).min(cap2.map(|c| c as usize).unwrap_or(usize::MAX)),
                        None => remaining,
                    };
                    let mut model: Vec<u8> = Vec::new();
                    run.exit = false;
                    macro_rules! one_view {
                        ($buf:expr) => {{
                            if cfg.two_step {
                                let mut inter = $buf.to_to_buffer_ref();
                                loop {
                                    let mut b = inter.to_buffer_ref();
                                    run.in_view(&mut b, view_cap, &mut model, usize::MAX, 0);
                                    if run.split {
                                        run.split = false;
                                        drop(b);
                                        continue;
                                    }
                                    run.finish_view(b, view_cap, &mut model);
                                    break;
                                }
                            } else {
                                with_buffer($buf, |mut b| {
                                    run.in_view(&mut b, view_cap, &mut model, usize::MAX, 0);
                                    run.finish_view(b, view_cap, &mut model);
                                })
                            }
                        }};
                    }
                    // a simulated crash inside the closure unwinds through the release of the view
                    let unwound = guard(|| match cfg.cap_at {
                        Some(c) if cap2.is_some() => one_view!($mk(&mut $container).cap_at(c as usize).cap_at(cap2.unwrap() as usize)),
                        Some(c) => one_view!($mk(&mut $container).cap_at(c as usize)),
                        None => one_view!($mk(&mut $container)),
                    });
                    let mut clamped_lie = false;
                    match unwound {
                        Err(p) => {
                            // the refusal of a contract-breaking reader is a panic raised by the buffer crate itself
                            let refused_lie = run.lying && p.file.ends_with("buffer/src/lib.rs");
                            if p.msg != UNWIND_MARKER && !refused_lie {
                                run.viol = Some(v("panic", &[("message", &p.msg_class()), ("file", &p.file_class())], format!("the buffer library panicked: {} at {}:{} (store {}, capacity {}, pre-existing {}, cap_at {:?})", p.msg, p.file, p.line, cfg.store, cfg.capacity, cfg.pre_len, cfg.cap_at)));
                            }
                            run.split = false;
                            run.pending_readref = None;
                        }
                        Ok(_) => clamped_lie = run.lying,
                    }
                    run.lying = false;
                    if run.viol.is_some() {
                        break;
                    }
                    if clamped_lie {
                        // the over-report was accepted within the capacity: only the capacity is checked
                        let after: Vec<u8> = $content(&$container);
                        if after.len() > storage0.1 {
                            run.viol = Some(v("container-after-release-wrong", &[("store", &cfg.store.to_string()), ("what", "length-beyond-capacity")], format!("the container reports {} bytes in {} bytes of storage", after.len(), storage0.1)));
                        }
                        break;
                    }
                    expected.extend_from_slice(&model);
                    let after: Vec<u8> = $content(&$container);
                    if after != expected {
                        let what = if after.len() != expected.len() { "length" } else { "contents" };
                        run.viol = Some(v("container-after-release-wrong", &[("store", &cfg.store.to_string()), ("what", what)], format!("after releasing the view the container holds {} bytes, expected {} (old length {} + {} written); contents equal = {}", after.len(), expected.len(), expected.len() - model.len(), model.len(), after == expected)));
                        break;
                    }
                    ctx.oracle_event = true;
                    if run.pos >= run.ops.len() {
                        break;
                    }
                }
            }};
        }
        match cfg.store {
            0 => {
                let mut vec: Vec<u8> = Vec::with_capacity(cap.max(pre.len()));
                vec.extend_from_slice(&pre);
                drive!(vec, |c: &mut Vec<u8>| unsafe { &mut *(c as *mut Vec<u8>) }, |c: &Vec<u8>| c.capacity() - c.len(), |c: &Vec<u8>| c.clone(), |c: &Vec<u8>| (c.as_ptr() as usize, c.capacity()));
            }
            1 => {
                let mut a: ArrayVec<[u8; 16]> = ArrayVec::new();
                a.extend(pre.iter().cloned().take(16));
                drive!(a, |c: &mut ArrayVec<[u8; 16]>| unsafe { &mut *(c as *mut ArrayVec<[u8; 16]>) }, |c: &ArrayVec<[u8; 16]>| c.capacity() - c.len(), |c: &ArrayVec<[u8; 16]>| c.to_vec(), |c: &ArrayVec<[u8; 16]>| (c.as_ptr() as usize, c.capacity()));
            }
            2 => {
                let mut a: ArrayVec<[u8; 64]> = ArrayVec::new();
                a.extend(pre.iter().cloned().take(64));
                drive!(a, |c: &mut ArrayVec<[u8; 64]>| unsafe { &mut *(c as *mut ArrayVec<[u8; 64]>) }, |c: &ArrayVec<[u8; 64]>| c.capacity() - c.len(), |c: &ArrayVec<[u8; 64]>| c.to_vec(), |c: &ArrayVec<[u8; 64]>| (c.as_ptr() as usize, c.capacity()));
            }
            3 => {
                let mut a: ArrayVec<[u8; 2048]> = ArrayVec::new();
                a.extend(pre.iter().cloned().take(2048));
                drive!(a, |c: &mut ArrayVec<[u8; 2048]>| unsafe { &mut *(c as *mut ArrayVec<[u8; 2048]>) }, |c: &ArrayVec<[u8; 2048]>| c.capacity() - c.len(), |c: &ArrayVec<[u8; 2048]>| c.to_vec(), |c: &ArrayVec<[u8; 2048]>| (c.as_ptr() as usize, c.capacity()));
            }
            _ => {
                // plain slice and slice reference: one view only (a slice has no length to grow; the
                // slice reference is consumed by the borrow); checked through initialized() / the shrunk reference
                let mut backing = vec![0u8; cap];
                let remaining = cap;
                let view_cap = match cfg.cap_at {
                    Some(c) => (c as usize).min(remaining),
                    None => remaining,
                };
                let mut model: Vec<u8> = Vec::new();
                if cfg.store == 4 {
                    let sl: &mut [u8] = &mut backing[..];
                    macro_rules! one_view {
                        ($buf:expr) => {{
                            if cfg.two_step {
                                let mut inter = $buf.to_to_buffer_ref();
                                loop {
                                    let mut b = inter.to_buffer_ref();
                                    run.in_view(&mut b, view_cap, &mut model, usize::MAX, 0);
                                    if run.split {
                                        run.split = false;
                                        drop(b);
                                        continue;
                                    }
                                    run.finish_view(b, view_cap, &mut model);
                                    break;
                                }
                            } else {
                                with_buffer($buf, |mut b| {
                                    run.in_view(&mut b, view_cap, &mut model, usize::MAX, 0);
                                    run.finish_view(b, view_cap, &mut model);
                                })
                            }
                        }};
                    }
                    let unwound = guard(|| match cfg.cap_at {
                        Some(c) => one_view!(sl.cap_at(c as usize)),
                        None => one_view!(sl),
                    });
                    let mut skip_content = false;
                    match unwound {
                        Err(p) => {
                            if p.msg != UNWIND_MARKER && !(run.lying && p.file.ends_with("buffer/src/lib.rs")) {
                                run.viol = Some(v("panic", &[("message", &p.msg_class()), ("file", &p.file_class())], format!("the buffer library panicked: {} at {}:{} (store 4)", p.msg, p.file, p.line)));
                            }
                            run.pending_readref = None;
                        }
                        Ok(_) => skip_content = run.lying,
                    }
                    run.lying = false;
                    if skip_content {
                        model.clear();
                    }
                    if run.viol.is_none() && backing[..model.len()] != model[..] {
                        run.viol = Some(v("container-after-release-wrong", &[("store", "4"), ("what", "contents")], "the slice does not hold the written bytes at its start".into()));
                    }
                } else {
                    // The borrow `&'d mut &'d mut [u8]` never ends in safe code; use a raw pointer to look at the
                    // reference after release (the only way to observe "length after release" for this store).
                    let mut sl: &mut [u8] = unsafe { std::slice::from_raw_parts_mut(backing.as_mut_ptr(), cap) };
                    let slp: *mut &mut [u8] = &mut sl;
                    {
                        let r: &mut &mut [u8] = unsafe { &mut *slp };
                        let unwound = guard(|| match cfg.cap_at {
                            Some(c) => with_buffer(r.cap_at(c as usize), |mut b| {
                                run.in_view(&mut b, view_cap, &mut model, usize::MAX, 0);
                                run.finish_view(b, view_cap, &mut model);
                            }),
                            None => with_buffer(r, |mut b| {
                                run.in_view(&mut b, view_cap, &mut model, usize::MAX, 0);
                                run.finish_view(b, view_cap, &mut model);
                            }),
                        });
                        match unwound {
                            Err(p) => {
                                if p.msg != UNWIND_MARKER && !(run.lying && p.file.ends_with("buffer/src/lib.rs")) {
                                    run.viol = Some(v("panic", &[("message", &p.msg_class()), ("file", &p.file_class())], format!("the buffer library panicked: {} at {}:{} (store 5)", p.msg, p.file, p.line)));
                                }
                                run.pending_readref = None;
                                run.lying = false;
                            }
                            Ok(_) => {}
                        }
                    }
                    let span: usize = unsafe { (&*slp).len() };
                    if run.viol.is_none() && span > cap {
                        run.viol = Some(v("container-after-release-wrong", &[("store", "5"), ("what", "length-beyond-capacity")], format!("after release the slice reference spans {} bytes of a {}-byte slice", span, cap)));
                    }
                    let after: Vec<u8> = if run.viol.is_none() { unsafe { (&*slp).to_vec() } } else { Vec::new() };
                    let clamped = std::mem::replace(&mut run.lying, false);
                    if run.viol.is_none() && !clamped && after != model {
                        run.viol = Some(v("container-after-release-wrong", &[("store", "5"), ("what", if after.len() != model.len() { "length" } else { "contents" })], format!("after release the slice reference spans {} bytes, {} were written", after.len(), model.len())));
                    }
                }
                ctx.oracle_event = true;
            }
        }
    }
}

impl Engine for BufEngine {
    type Cfg = BufCfg;
    type Op = BufOp;
    fn engine_name(&self) -> &'static str {
        "buffer"
    }
    fn property(&self) -> &'static str {
        "C19"
    }
    fn budget(&self) -> (u64, u64) {
        (600_000, 180)
    }

    fn generate(&self, seed: u64, _tier: Tier) -> Case<BufCfg, BufOp> {
        let mut c = Prng::stream(seed, 1);
        let mut s = Prng::stream(seed, 2);
        let store = c.below(6) as u8;
        let capacity: u16 = match store {
            1 => 16,
            2 => 64,
            3 => 2048,
            _ => *c.pick(&[0u16, 1, 2, 7, 16, 64, 100, 1000, 4096]),
        };
        let pre_len = match store {
            4 | 5 => 0,
            _ => match c.below(4) {
                0 => 0,
                1 => capacity,
                2 => capacity.saturating_sub(1),
                _ => c.range(0, capacity as u64) as u16,
            },
        };
        let cap_at = if c.chance(1, 3) {
            let rem = capacity - pre_len;
            Some(*c.pick(&[0u16, 1, rem.saturating_sub(1), rem, rem.saturating_add(1), rem / 2, rem.saturating_add(100)]))
        } else {
            None
        };
        let cap_at2 = if cap_at.is_some() && store <= 3 && c.chance(1, 3) {
            let a = cap_at.unwrap();
            Some(*c.pick(&[0u16, a, a.saturating_add(1), a.saturating_sub(1), a.saturating_add(50), a / 2]))
        } else {
            None
        };
        let two_step = store != 5 && c.chance(1, 3);
        let cfg = BufCfg { seed: c.next_u64(), store, capacity, pre_len, cap_at, cap_at2, two_step };
        let rem = (capacity - pre_len) as u64;
        let n = c.range(1, 14);
        let mut ops = Vec::new();
        let lens = |s: &mut Prng| -> u16 {
            match s.below(8) {
                0 => 0,
                1 => 1,
                2 => rem as u16,
                3 => (rem as u16).saturating_add(1),
                4 => (rem as u16).saturating_sub(1),
                5 => s.range(0, rem + 3) as u16,
                _ => s.range(0, rem / 3 + 2) as u16,
            }
        };
        for _ in 0..n {
            match s.weighted(&[5, 4, 6, 3, 1, 2, 1, 3, 1, 2, if two_step { 3 } else { 0 }, 1, 3, 1, 2]) {
                0 => ops.push(BufOp::Write { len: lens(&mut s), salt: s.next_u64() as u32 }),
                1 => ops.push(BufOp::Extend { len: lens(&mut s), salt: s.next_u64() as u32 }),
                2 => ops.push(BufOp::Read { avail: lens(&mut s).saturating_add(s.below(5) as u16), fault: *s.pick(&[0u8, 0, 1, 1, 2, 3, 4, 5, 5, 6]), salt: s.next_u64() as u32 }),
                3 => {
                    let cap_at = if s.chance(1, 2) { Some(lens(&mut s)) } else { None };
                    let cap_at2 = if cap_at.is_some() && s.chance(1, 3) { Some(lens(&mut s)) } else { None };
                    ops.push(BufOp::Nested { n: s.range(0, 4) as u8, cap_at, cap_at2 });
                }
                7 => ops.push(BufOp::ExtendLoose { len: lens(&mut s).saturating_add(s.below(8) as u16), salt: s.next_u64() as u32 }),
                8 => ops.push(BufOp::NestedDropUnused { cap_at: if s.chance(1, 2) { Some(lens(&mut s)) } else { None } }),
                9 => ops.push(BufOp::ReadRef { avail: lens(&mut s).saturating_add(s.below(5) as u16), fault: *s.pick(&[0u8, 0, 1, 1, 2, 3, 4]), salt: s.next_u64() as u32 }),
                10 => ops.push(BufOp::SplitView),
                11 => ops.push(if s.chance(1, 2) { BufOp::PanicExit } else { BufOp::ExtendPanics { len: lens(&mut s).saturating_add(2), after: s.range(0, rem + 2) as u16, salt: s.next_u64() as u32 } }),
                12 => ops.push(BufOp::TopRead { avail: lens(&mut s).saturating_add(s.below(5) as u16), fault: *s.pick(&[0u8, 0, 0, 1, 1, 2, 3, 4]), salt: s.next_u64() as u32 }),
                14 => {
                    let len = lens(&mut s).saturating_add(s.below(4) as u16);
                    ops.push(BufOp::ExtendResumable { len, pause_at: s.range(0, len as u64) as u16, salt: s.next_u64() as u32 });
                }
                13 => ops.push(BufOp::ReadLies { avail: lens(&mut s), extra: *s.pick(&[0u16, 0, 1, 7, 300]), salt: s.next_u64() as u32 }),
                4 => ops.push(BufOp::FailAndExit { len: s.range(0, 10) as u16 }),
                5 => ops.push(BufOp::Reopen),
                _ => ops.push(BufOp::DropUnused),
            }
        }
        Case { cfg, ops }
    }

    fn execute(&self, case: &Case<BufCfg, BufOp>, ctx: &mut Ctx) -> Option<Violation> {
        ctx.ops_executed += case.ops.len() as u64;
        let mut run = Run { cfg: &case.cfg, ops: &case.ops, pos: 0, stats: Stats::default(), viol: None, exit: false, trace: 0, pending_readref: None, split: false, lying: false };
        let r = guard(|| {
            BufEngine::run_store(&mut run, ctx);
        });
        ctx.count_n("probe_writes_ok", run.stats.writes_ok);
        ctx.count_n("probe_writes_refused", run.stats.writes_refused);
        ctx.count_n("probe_reads_ok", run.stats.reads_ok);
        ctx.count_n("fault_short_read", run.stats.read_faults[1]);
        ctx.count_n("fault_zero_length_read", run.stats.read_faults[2]);
        ctx.count_n("fault_eintr_read", run.stats.read_faults[3]);
        ctx.count_n("fault_read_error", run.stats.read_faults[4]);
        ctx.count_n("probe_nested_views", run.stats.nested);
        ctx.count_n("probe_capped_views", run.stats.capped + case.cfg.cap_at.is_some() as u64);
        ctx.count_n("probe_early_exits", run.stats.early_exits);
        ctx.count_n("probe_by_value_reads", run.stats.by_value_reads);
        ctx.count_n("probe_split_views", run.stats.splits);
        ctx.count_n("probe_direct_reader_reads", run.stats.direct_reads);
        ctx.count_n("fault_unwind_in_closure", run.stats.unwinds);
        ctx.count_n("probe_top_level_reads", run.stats.top_reads);
        ctx.count_n("fault_reader_over_reports", run.stats.lies);
        if run.stats.read_faults[1..].iter().sum::<u64>() > 0 {
            ctx.fault_inflight = true;
        }
        ctx.t(run.pos as u64);
        ctx.t(run.trace);
        ctx.t(run.stats.writes_ok * 31 + run.stats.writes_refused * 7 + run.stats.reads_ok);
        ctx.state(((case.cfg.store as u64) << 8) | ((case.cfg.cap_at.is_some() as u64) << 4) | (run.stats.writes_refused.min(3) << 2) | run.stats.nested.min(3));
        match r {
            Ok(()) => run.viol,
            Err(p) => Some(v("panic", &[("message", &p.msg_class()), ("file", &p.file_class())], format!("the buffer library panicked: {} at {}:{} (store {}, capacity {}, pre-existing {}, cap_at {:?})", p.msg, p.file, p.line, case.cfg.store, case.cfg.capacity, case.cfg.pre_len, case.cfg.cap_at))),
        }
    }

    fn simplify_op(&self, op: &BufOp) -> Vec<BufOp> {
        match *op {
            BufOp::Write { len, salt } if len > 0 => vec![BufOp::Write { len: len - 1, salt }, BufOp::Write { len: 0, salt }],
            BufOp::Extend { len, salt } if len > 0 => vec![BufOp::Extend { len: len - 1, salt }],
            BufOp::Read { avail, fault, salt } if fault != 0 => vec![BufOp::Read { avail, fault: 0, salt }],
            BufOp::Nested { n, cap_at: Some(_), .. } => vec![BufOp::Nested { n, cap_at: None, cap_at2: None }],
            _ => vec![],
        }
    }
    fn simplify_cfg(&self, cfg: &BufCfg) -> Vec<BufCfg> {
        let mut v = Vec::new();
        if cfg.cap_at2.is_some() {
            v.push(BufCfg { cap_at2: None, ..cfg.clone() });
        }
        if cfg.two_step {
            v.push(BufCfg { two_step: false, ..cfg.clone() });
        }
        if cfg.cap_at.is_some() {
            v.push(BufCfg { cap_at: None, cap_at2: None, ..cfg.clone() });
        }
        if cfg.pre_len > 0 && cfg.pre_len != cfg.capacity {
            v.push(BufCfg { pre_len: 0, ..cfg.clone() });
        }
        v
    }
    fn info(&self) -> EngineInfo {
        EngineInfo {
            rule: "one run = one backing store (Vec, ArrayVec of 3 sizes, slice, slice reference; any capacity and pre-existing length; optionally capped) driven by a history of writes, iterator extends, reads from a reader with simulated faults (short read, zero-length read, EINTR, hard error), nested and capped sub-views, early exits after a refused write, a crash (panic) inside the closure that releases the view during unwinding, by-value reads into a view that already holds bytes, re-opened views, reads straight into the container whose returned slice is used after the library released its view, a reader that over-reports its byte count (refused by the library; the release during that unwinding must not commit the bogus count), the two-step API with several BufferRefs taken from one intermediate, and unused intermediates; a Vec<u8> + capacity is the reference. Checked per op: remaining(), refusal instead of overrun, exact count; per view: initialized() equals the model; per release: container length = old length + bytes written and contents, the container's storage (address, capacity) unchanged, slices handed out still inside it. Non-trivial = a reader fault fired AND a release was checked; distinct = distinct trace hash.".into(),
            assumptions: vec![
                "the pure write/extend histories have no schedule or fault in them; they ride along as workload between faulty reads (honest limit)".into(),
                "the slice-reference store is observed after release through a raw pointer (its borrow never ends in safe code)".into(),
                "memory-safety half: the same simulator binary is re-run under AddressSanitizer (all engines) and Miri (pure-Rust engines) by ./check C19".into(),
            ],
            real: vec!["buffer::{with_buffer, BufferRef, Buffer impls for Vec / ArrayVec / slice / slice ref / BufferRef / CapAt}", "buffer::ReadBuffer"],
            stub: vec!["the reader (simulated, with faults)"],
            required_probes: vec!["probe_writes_refused", "probe_reads_ok", "probe_nested_views", "probe_capped_views", "probe_early_exits", "probe_by_value_reads", "probe_split_views", "probe_top_level_reads"],
            fault_kinds: vec!["fault_short_read", "fault_zero_length_read", "fault_eintr_read", "fault_read_error", "fault_unwind_in_closure", "fault_reader_over_reports"],
        }
    }
}
