//! Property C02 is decided by two simulations: the two-endpoint `net` engine (progress, every call returns,
//! finite deadline of a single connection) and, for the multi-peer endpoint named in the property's anchors
//! (net/src/net.rs), the `multi` engine restricted to its deadline / termination observations.

use super::multi::{MultiCfg, MultiEngine, MultiOp};
use super::net::{NetCfg, NetEngine, NetOp, NetProp};
use crate::core::*;
use crate::prng::mix;
use serde::{Deserialize, Serialize};

#[derive(Clone, Debug, Serialize, Deserialize)]
pub enum C02Cfg {
    Net(NetCfg),
    Multi(MultiCfg),
}

#[derive(Clone, Debug, Serialize, Deserialize)]
pub enum C02Op {
    N(NetOp),
    M(MultiOp),
}

pub struct C02Engine;

const NET: NetEngine = NetEngine { prop: NetProp::C02 };
const MULTI: MultiEngine = MultiEngine { c02: true };

fn split(case: &Case<C02Cfg, C02Op>) -> Result<Case<NetCfg, NetOp>, Case<MultiCfg, MultiOp>> {
    match &case.cfg {
        C02Cfg::Net(c) => Ok(Case { cfg: c.clone(), ops: case.ops.iter().filter_map(|o| if let C02Op::N(x) = o { Some(x.clone()) } else { None }).collect() }),
        C02Cfg::Multi(c) => Err(Case { cfg: c.clone(), ops: case.ops.iter().filter_map(|o| if let C02Op::M(x) = o { Some(x.clone()) } else { None }).collect() }),
    }
}

impl Engine for C02Engine {
    type Cfg = C02Cfg;
    type Op = C02Op;
    fn engine_name(&self) -> &'static str {
        "net"
    }
    fn property(&self) -> &'static str {
        "C02"
    }
    fn budget(&self) -> (u64, u64) {
        NET.budget()
    }
    fn generate(&self, seed: u64, tier: Tier) -> Case<C02Cfg, C02Op> {
        if mix(seed, 0x633032, 0) % 6 == 0 {
            let c = MULTI.generate(seed, tier);
            Case { cfg: C02Cfg::Multi(c.cfg), ops: c.ops.into_iter().map(C02Op::M).collect() }
        } else {
            let c = NET.generate(seed, tier);
            Case { cfg: C02Cfg::Net(c.cfg), ops: c.ops.into_iter().map(C02Op::N).collect() }
        }
    }
    fn execute(&self, case: &Case<C02Cfg, C02Op>, ctx: &mut Ctx) -> Option<Violation> {
        match split(case) {
            Ok(c) => NET.execute(&c, ctx),
            Err(c) => {
                ctx.count("probe_multi_peer_run");
                MULTI.execute(&c, ctx)
            }
        }
    }
    fn simplify_op(&self, op: &C02Op) -> Vec<C02Op> {
        match op {
            C02Op::N(o) => NET.simplify_op(o).into_iter().map(C02Op::N).collect(),
            C02Op::M(o) => MULTI.simplify_op(o).into_iter().map(C02Op::M).collect(),
        }
    }
    fn simplify_cfg(&self, cfg: &C02Cfg) -> Vec<C02Cfg> {
        match cfg {
            C02Cfg::Net(c) => NET.simplify_cfg(c).into_iter().map(C02Cfg::Net).collect(),
            C02Cfg::Multi(_) => Vec::new(),
        }
    }
    fn info(&self) -> EngineInfo {
        let mut i = NET.info();
        let m = MULTI.info();
        i.rule.push_str(" One run in six is instead a multi-peer run (engine `multi`, see C20) of which only the Net-level parts of this property are reported: Net::needs_tick() missing or later than the earliest per-peer deadline, and calls that never return.");
        for r in m.real {
            if !i.real.contains(&r) {
                i.real.push(r);
            }
        }
        i.required_probes.push("probe_multi_peer_run");
        for f in m.fault_kinds {
            if !i.fault_kinds.contains(&f) {
                i.fault_kinds.push(f);
            }
        }
        i
    }
}
