//! Engine `datafile` (C16): the real datafile reader (all parsing and
//! validation in `datafile::raw::Reader`) driven through its callback traits by
//! a simulated disk. A harness-own writer stores a reference model as version 3
//! and version 4 files; faults hit the stored bytes between write and read
//! (torn tail, bit rot of fields to boundary values, random flips) and the
//! callbacks during read (hard errors, file shrinking after open, allocation
//! refusal). The map layer is exercised over a real temp file whose content
//! the simulator decided.

use crate::core::*;
use crate::prng::{mix, Prng};
use libtw2_datafile::raw::{CallbackError, CallbackNew, CallbackReadData, Reader, Version};
use serde::{Deserialize, Serialize};
use std::collections::BTreeMap;

#[derive(Clone, Debug, Serialize, Deserialize)]
pub struct DfCfg {
    pub seed: u64,
    /// 3 or 4
    pub version: u8,
    /// v4: 0 = zlib stored blocks written by hand, 1 = compressed with libz
    pub compress: u8,
    pub n_types: u8,
    pub n_items: u8,
    pub n_data: u8,
    /// the (semi-structured) map layout instead of arbitrary items
    pub map: bool,
    /// also read the file through the real file plumbing (datafile/src/file.rs) from a temp file;
    /// the item section is then made large (header + tables + items beyond one I/O buffer)
    #[serde(default)]
    pub via_file: bool,
    /// junk bytes in front of the datafile inside that temp file (Reader::new on a positioned File)
    #[serde(default)]
    pub file_prefix: u16,
    /// some data blocks are megabytes of highly compressible bytes
    #[serde(default)]
    pub huge_data: bool,
    /// via_file only: tables (not sections) beyond any plausible I/O buffer — 1 thousands of tiny items,
    /// 2 thousands of tiny data blocks, 3 more than a thousand item types
    #[serde(default)]
    pub many: u8,
}

#[derive(Clone, Debug, Serialize, Deserialize, PartialEq)]
#[serde(tag = "op")]
pub enum DfOp {
    /// torn tail: the file ends at this offset (modulo length)
    Truncate { at: u32 },
    /// bit rot: overwrite the `field`-th 32-bit field of region `region` with a boundary value
    /// regions: 0 header, 1 type table, 2 item offsets, 3 data offsets, 4 uncompressed sizes, 5 item headers/bodies, 6 data
    Rot { region: u8, field: u32, val: u8 },
    FlipBit { at: u32, bit: u8 },
    /// the k-th callback call fails with an I/O error
    CbError { at_call: u8 },
    /// the file loses its last `n` bytes after `ensure_filesize` succeeded
    ShrinkAfterOpen { n: u32 },
    /// allocations above this many bytes are refused
    AllocLimit { bytes: u32 },
    /// coherent rot of three related fields: item k grows by `delta` bytes, item k+1 starts `delta` later and
    /// shrinks by `delta` (offsets stay sequential, totals unchanged)
    RotShift { item: u8, delta: i8 },
    /// coherent rot of the header: `field` (0 size_items, 1 size_data, 2 num_items, 3 num_data, 4 num_item_types)
    /// changes by `delta` and `size` / `swaplen` are recomputed so that the header stays self-consistent
    RotHeader { field: u8, delta: i8 },
}

const BOUNDARY: [i32; 16] = [0, 1, -1, 2, 3, 4, 5, 7, 8, i32::MIN, i32::MAX, i32::MAX - 3, 0x10000, 0xffff, -4, 0x7fff_fffc];

fn v(class: &str, keys: &[(&str, &str)], obs: String) -> Violation {
    Violation::new("C16", class, keys, obs)
}

#[derive(Clone, Debug, PartialEq)]
struct MItem {
    type_id: u16,
    id: u16,
    data: Vec<i32>,
}

struct Model {
    items: Vec<MItem>, // grouped by type (types ascending), arbitrary ids
    data: Vec<Vec<u8>>,
}

struct Layout {
    bytes: Vec<u8>,
    /// byte ranges of the regions (see DfOp::Rot)
    regions: [(usize, usize); 7],
    data_start: usize,
    size_data: usize,
}

fn put(out: &mut Vec<u8>, x: i32) {
    out.extend_from_slice(&x.to_le_bytes());
}

fn adler32(d: &[u8]) -> u32 {
    let (mut a, mut b) = (1u32, 0u32);
    for &x in d {
        a = (a + x as u32) % 65521;
        b = (b + a) % 65521;
    }
    (b << 16) | a
}

/// zlib stream consisting of stored (uncompressed) deflate blocks, written by hand.
fn zlib_stored(d: &[u8]) -> Vec<u8> {
    let mut out = vec![0x78, 0x01];
    if d.is_empty() {
        out.extend_from_slice(&[0x01, 0, 0, 0xff, 0xff]);
    }
    let mut chunks = d.chunks(65535).peekable();
    while let Some(c) = chunks.next() {
        out.push(if chunks.peek().is_none() { 1 } else { 0 });
        out.extend_from_slice(&(c.len() as u16).to_le_bytes());
        out.extend_from_slice(&(!(c.len() as u16)).to_le_bytes());
        out.extend_from_slice(c);
    }
    out.extend_from_slice(&adler32(d).to_be_bytes());
    out
}

fn model(cfg: &DfCfg) -> Model {
    let mut r = Prng::new(mix(cfg.seed, 0x6466, 0));
    if cfg.map {
        return map_model(cfg, &mut r);
    }
    let mut type_ids: Vec<u16> = Vec::new();
    let n_types = if cfg.via_file && cfg.many == 3 { 1400 + (cfg.seed % 1500) as usize } else { cfg.n_types as usize };
    if n_types > 100 {
        // many types: consecutive ids from a random start
        let start = r.below(0x10000 - n_types as u64) as u16;
        type_ids.extend((0..n_types as u16).map(|k| start + k));
    }
    while type_ids.len() < n_types {
        let t = *r.pick(&[0u16, 1, 2, 3, 4, 5, 6, 100, 0x7fff, 0x8000, 0xfffe, 0xffff]);
        let t = if r.chance(1, 2) { t } else { r.below(0x10000) as u16 };
        if !type_ids.contains(&t) {
            type_ids.push(t);
        }
    }
    type_ids.sort();
    let mut items = Vec::new();
    if !type_ids.is_empty() {
        let mut per_type = vec![0usize; type_ids.len()];
        let n_items = if cfg.via_file && cfg.many == 1 {
            4000 + (cfg.seed % 6000) as usize
        } else if cfg.via_file && cfg.many == 3 {
            0
        } else if cfg.via_file {
            cfg.n_items as usize * 24
        } else {
            cfg.n_items as usize
        };
        for _ in 0..n_items {
            per_type[r.usize_below(type_ids.len())] += 1;
        }
        for (k, &t) in type_ids.iter().enumerate() {
            // every listed type has at least one item (a type with zero items is legal too, sometimes)
            let n = if per_type[k] == 0 && r.chance(3, 4) { 1 } else { per_type[k] };
            for j in 0..n {
                let id = if r.chance(1, 2) { j as u16 } else { r.below(0x10000) as u16 };
                // through a real file the item section must outgrow any plausible I/O buffer (8 KiB, 64 KiB, ...)
                let len = if cfg.via_file && cfg.many != 0 { *r.pick(&[0usize, 0, 1, 2]) } else if cfg.via_file { *r.pick(&[0usize, 1, 2, 16, 40, 500, 500, 4000, 20000]) } else { *r.pick(&[0usize, 0, 1, 2, 3, 5, 16, 40]) };
                items.push(MItem { type_id: t, id, data: (0..len).map(|_| r.i32_edge()).collect() });
            }
        }
    }
    let mut data = Vec::new();
    let n_data = if cfg.via_file && cfg.many == 2 { 4000 + (cfg.seed % 3000) as usize } else { cfg.n_data as usize };
    for _ in 0..n_data {
        let mut len = if n_data > 100 { r.usize_below(4) } else { *r.pick(&[0usize, 1, 2, 3, 4, 7, 100, 1000, 5000, 70000]) };
        if cfg.huge_data && n_data <= 100 && r.chance(1, 2) {
            // megabytes of highly compressible data (an empty tile layer of a big map)
            len = *r.pick(&[1usize << 20, (3 << 20) + 12345, 8 << 20]);
        }
        let d = match if len >= (1 << 20) { r.below(2) * 2 } else { r.below(3) } {
            0 => vec![0u8; len],
            1 => r.bytes(len),
            _ => (0..len).map(|i| (i / 7) as u8).collect(),
        };
        data.push(d);
    }
    Model { items, data }
}

fn serialize(cfg: &DfCfg, m: &Model) -> Layout {
    let v4 = cfg.version == 4;
    // item types table
    let mut types: Vec<(u16, usize, usize)> = Vec::new(); // (type, start, num)
    for (i, it) in m.items.iter().enumerate() {
        match types.last_mut() {
            Some(t) if t.0 == it.type_id => t.2 += 1,
            _ => types.push((it.type_id, i, 1)),
        }
    }
    let mut items_raw: Vec<u8> = Vec::new();
    let mut item_offsets: Vec<i32> = Vec::new();
    for it in &m.items {
        item_offsets.push(items_raw.len() as i32);
        put(&mut items_raw, (((it.type_id as u32) << 16) | it.id as u32) as i32);
        put(&mut items_raw, (it.data.len() * 4) as i32);
        for &x in &it.data {
            put(&mut items_raw, x);
        }
    }
    let mut data_raw: Vec<u8> = Vec::new();
    let mut data_offsets: Vec<i32> = Vec::new();
    let mut uncomp: Vec<i32> = Vec::new();
    for d in &m.data {
        data_offsets.push(data_raw.len() as i32);
        if v4 {
            uncomp.push(d.len() as i32);
            let z = match cfg.compress {
                0 => zlib_stored(d),
                1 => libtw2_datafile_zlib(d),
                _ => libz_compress(d),
            };
            data_raw.extend_from_slice(&z);
        } else {
            data_raw.extend_from_slice(d);
        }
    }
    let header_len = 36;
    let total = header_len + types.len() * 12 + item_offsets.len() * 4 + data_offsets.len() * 4 + if v4 { uncomp.len() * 4 } else { 0 } + items_raw.len() + data_raw.len();
    let size = total - 16;
    let swaplen = size - data_raw.len();
    let mut out: Vec<u8> = Vec::with_capacity(total);
    out.extend_from_slice(b"DATA");
    put(&mut out, cfg.version as i32);
    put(&mut out, size as i32);
    put(&mut out, swaplen as i32);
    put(&mut out, types.len() as i32);
    put(&mut out, m.items.len() as i32);
    put(&mut out, m.data.len() as i32);
    put(&mut out, items_raw.len() as i32);
    put(&mut out, data_raw.len() as i32);
    let mut regions = [(0usize, 0usize); 7];
    regions[0] = (0, out.len());
    let s = out.len();
    for t in &types {
        put(&mut out, t.0 as i32);
        put(&mut out, t.1 as i32);
        put(&mut out, t.2 as i32);
    }
    regions[1] = (s, out.len());
    let s = out.len();
    for &o in &item_offsets {
        put(&mut out, o);
    }
    regions[2] = (s, out.len());
    let s = out.len();
    for &o in &data_offsets {
        put(&mut out, o);
    }
    regions[3] = (s, out.len());
    let s = out.len();
    if v4 {
        for &o in &uncomp {
            put(&mut out, o);
        }
    }
    regions[4] = (s, out.len());
    let s = out.len();
    out.extend_from_slice(&items_raw);
    regions[5] = (s, out.len());
    let s = out.len();
    out.extend_from_slice(&data_raw);
    regions[6] = (s, out.len());
    Layout { bytes: out, regions, data_start: s, size_data: data_raw.len() }
}

/// Really compressed with libz (what map editors write): the only encoding with a compression ratio.
fn libz_compress(d: &[u8]) -> Vec<u8> {
    let mut out = vec![0u8; d.len() + d.len() / 1000 + 64];
    let n = libtw2_zlib_minimal::compress(&mut out, d).expect("TW2SIM libz compress");
    out.truncate(n);
    out
}

fn libtw2_datafile_zlib(d: &[u8]) -> Vec<u8> {
    // the library's own zlib binding (libz): the second, independent encoding of v4 data
    libtw2_zlib_compress(d)
}

#[allow(non_snake_case)]
fn libtw2_zlib_compress(d: &[u8]) -> Vec<u8> {
    // zlib-minimal is not a direct dependency of the harness; use deflate "stored" with a different
    // block split as the second encoding (single-byte first block), still decoded by the real libz.
    let mut out = vec![0x78, 0x9c];
    if d.is_empty() {
        out.extend_from_slice(&[0x01, 0, 0, 0xff, 0xff]);
    } else {
        let (a, b) = d.split_at(1);
        let mut blocks: Vec<&[u8]> = vec![a];
        blocks.extend(b.chunks(4096));
        let n = blocks.len();
        for (i, c) in blocks.into_iter().enumerate() {
            if c.is_empty() {
                continue;
            }
            out.push(if i + 1 == n { 1 } else { 0 });
            out.extend_from_slice(&(c.len() as u16).to_le_bytes());
            out.extend_from_slice(&(!(c.len() as u16)).to_le_bytes());
            out.extend_from_slice(c);
        }
        if d.len() == 1 {
            // single block must carry the final flag
            let l = out.len();
            out[l - 1 - 4 - 1] = 1;
        }
    }
    out.extend_from_slice(&adler32(d).to_be_bytes());
    out
}

// ---------------------------------------------------------------------------
// semi-structured map layout (map/src/format.rs): version, info, image, group, layer items

/// A 12-byte name field (11 bytes + NUL) as three ints: each byte is stored biased by 128, big-endian.
fn name_ints(r: &mut Prng) -> [i32; 3] {
    let n = match r.below(4) {
        0 => 0,
        1 => 11,
        _ => r.usize_below(12),
    };
    let other_scripts = r.chance(1, 3);
    let mut b = [0u8; 12];
    for x in b[..n].iter_mut() {
        // names are bytes: ASCII, or anything non-NUL (UTF-8 of other scripts, Latin-1)
        *x = if other_scripts && r.chance(1, 2) { *r.pick(&[0xc3u8, 0xbc, 0xe4, 0xb8, 0xad, 0xf0, 0x9f, 0x98, 0x80, 0xff, 0x7f]) } else { 0x20 + r.below(0x5f) as u8 };
    }
    let mut out = [0i32; 3];
    for k in 0..3 {
        out[k] = i32::from_be_bytes([b[4 * k].wrapping_add(0x80), b[4 * k + 1].wrapping_add(0x80), b[4 * k + 2].wrapping_add(0x80), b[4 * k + 3].wrapping_add(0x80)]);
    }
    out
}

/// harness-own decoding of such a field, as the reader hands it out (last byte forced to NUL)
fn name_bytes(ints: &[i32]) -> [u8; 12] {
    let mut b = [0u8; 12];
    for k in 0..3 {
        let be = ints[k].to_be_bytes();
        for j in 0..4 {
            b[4 * k + j] = be[j].wrapping_sub(0x80);
        }
    }
    b[11] = 0;
    b
}

fn map_model(cfg: &DfCfg, r: &mut Prng) -> Model {
    let mut items = Vec::new();
    let mut data: Vec<Vec<u8>> = Vec::new();
    let mut add_data = |d: Vec<u8>| -> i32 {
        data.push(d);
        (data.len() - 1) as i32
    };
    // type 0: version
    items.push(MItem { type_id: 0, id: 0, data: vec![1] });
    // type 1: info (version, author, map_version, credits, license [, settings])
    let author = add_data(b"author\0".to_vec());
    let settings = add_data(b"sv_foo 1\0sv_bar 2\0".to_vec());
    items.push(MItem { type_id: 1, id: 0, data: vec![1, author, -1, -1, -1, settings] });
    // type 2: images (version, width, height, external, name, data)
    let n_images = cfg.n_items as usize % 3;
    for k in 0..n_images {
        let name = add_data(format!("img{}\0", k).into_bytes());
        let (w, h) = (r.range(1, 8) as i32, r.range(1, 8) as i32);
        let ext = r.chance(1, 2);
        let px = if ext { -1 } else { add_data(r.bytes((w * h * 4) as usize)) };
        items.push(MItem { type_id: 2, id: k as u16, data: vec![1, w, h, ext as i32, name, px] });
    }
    // layers: tilemaps
    let n_groups = 1 + (cfg.n_types as usize % 3);
    let mut layers: Vec<MItem> = Vec::new();
    let mut groups: Vec<MItem> = Vec::new();
    let mut layer_no = 0;
    for gk in 0..n_groups {
        let mut extra_in_game_group = 0i32;
        let n_layers = 1 + r.usize_below(2);
        // group v3: version, offset_x, offset_y, parallax_x, parallax_y, start_layer, num_layers, use_clipping, clip x,y,w,h, name[3]
        let nm = name_ints(r);
        groups.push(MItem { type_id: 4, id: gk as u16, data: vec![3, 0, 0, 100, 100, layer_no as i32, n_layers as i32, 0, 0, 0, 0, 0, nm[0], nm[1], nm[2]] });
        for lk in 0..n_layers {
            let (w, h) = (r.range(1, 6) as i32, r.range(1, 6) as i32);
            let tiles = add_data(r.bytes((w * h * 4) as usize));
            let game = gk == 0 && lk == 0;
            // layer header: version, type(2 = tilemap), flags; tilemap v3: version, width, height, flags(game=1), color rgba, color_env, color_env_offset, image, data, name[3]
            let nm = name_ints(r);
            let d = vec![0, 2, 0, 3, w, h, game as i32, 255, 255, 255, 255, -1, 0, -1, tiles, nm[0], nm[1], nm[2]];
            layers.push(MItem { type_id: 5, id: layer_no as u16, data: d });
            layer_no += 1;
            if game {
                // DDRace game layers share the game layer's dimensions; their own tile data index sits
                // after the name, at a position that depends on the kind
                for (k, (flag, tile_size)) in [(2i32, 2usize), (4, 6), (16, 4), (32, 2), (8, 4)].iter().enumerate() {
                    if !r.chance(1, 3) {
                        continue;
                    }
                    let zeroes = add_data(vec![0u8; (w * h * 4) as usize]);
                    let special = add_data(r.bytes((w * h) as usize * tile_size));
                    let nm = name_ints(r);
                    let mut d = vec![0, 2, 0, 3, w, h, *flag, 255, 255, 255, 255, -1, 0, -1, zeroes, nm[0], nm[1], nm[2], -1, -1, -1, -1, -1];
                    // extra fields after the name: tele, speedup, front, switch, tune
                    let pos = 18 + match k { 0 => 0, 1 => 1, 2 => 3, 3 => 4, _ => 2 };
                    d[pos] = special;
                    layers.push(MItem { type_id: 5, id: layer_no as u16, data: d });
                    layer_no += 1;
                    extra_in_game_group += 1;
                }
            }
        }
        if gk == 0 {
            // fix up the game group's layer count
            let g = groups.last_mut().unwrap();
            g.data[6] += extra_in_game_group;
        }
        if r.chance(1, 4) {
            // a DDRace sounds layer (current type 10 with item version 2, or the legacy type 9 with version 1) in its own group
            let legacy = r.chance(1, 3);
            let n_sources = r.range(0, 3) as i32;
            let sources = add_data(r.bytes(n_sources as usize * 52));
            let nm = name_ints(r);
            groups.push(MItem { type_id: 4, id: (2 * n_groups + gk) as u16, data: vec![3, 0, 0, 100, 100, layer_no as i32, 1, 0, 0, 0, 0, 0, nm[0], nm[1], nm[2]] });
            let nm = name_ints(r);
            layers.push(MItem { type_id: 5, id: layer_no as u16, data: vec![0, if legacy { 9 } else { 10 }, 0, if legacy { 1 } else { 2 }, n_sources, sources, -1, nm[0], nm[1], nm[2]] });
            layer_no += 1;
        }
        if r.chance(1, 3) {
            // a quads layer in its own group
            let quads = add_data(r.bytes(152 * 2));
            let nm = name_ints(r);
            groups.push(MItem { type_id: 4, id: (n_groups + gk) as u16, data: vec![3, 0, 0, 100, 100, layer_no as i32, 1, 0, 0, 0, 0, 0, nm[0], nm[1], nm[2]] });
            let nm = name_ints(r);
            layers.push(MItem { type_id: 5, id: layer_no as u16, data: vec![0, 3, 0, 2, 2, quads, -1, nm[0], nm[1], nm[2]] });
            layer_no += 1;
        }
    }
    items.extend(groups);
    items.extend(layers);
    Model { items, data }
}

// ---------------------------------------------------------------------------
// the simulated disk behind the callback traits

struct DiskCb {
    data: Vec<u8>,
    pos: usize,
    seek_base: Option<usize>,
    calls: u64,
    fail_at: Option<u64>,
    shrink_after_open: usize,
    alloc_limit: usize,
    buffer: Vec<u8>,
    errors_fired: u64,
    alloc_refused: u64,
    short_reads: u64,
    /// a seek_read request beyond the declared data section
    oob_request: Option<String>,
    declared_data: usize,
    max_alloc: usize,
}

impl DiskCb {
    fn tick(&mut self) -> Result<(), CallbackError> {
        self.calls += 1;
        if self.calls > 200_000 {
            panic!("{} datafile callback budget exceeded ({} calls)", BUDGET_MARKER, self.calls);
        }
        if let Some(k) = self.fail_at {
            if self.calls == k {
                self.errors_fired += 1;
                return Err(CallbackError);
            }
        }
        Ok(())
    }
}

impl CallbackNew for DiskCb {
    fn read(&mut self, buffer: &mut [u8]) -> Result<usize, CallbackError> {
        self.tick()?;
        // read-fully contract: a short count means end of file
        let n = buffer.len().min(self.data.len().saturating_sub(self.pos));
        buffer[..n].copy_from_slice(&self.data[self.pos..self.pos + n]);
        self.pos += n;
        if n < buffer.len() {
            self.short_reads += 1;
        }
        Ok(n)
    }
    fn set_seek_base(&mut self) -> Result<(), CallbackError> {
        self.tick()?;
        self.seek_base = Some(self.pos);
        Ok(())
    }
    fn ensure_filesize(&mut self, filesize: u32) -> Result<Result<(), ()>, CallbackError> {
        self.tick()?;
        let ok = self.data.len() as u64 >= filesize as u64;
        if ok && self.shrink_after_open > 0 {
            // the file shrinks after the size check succeeded
            let n = self.data.len().saturating_sub(self.shrink_after_open);
            self.data.truncate(n);
        }
        Ok(if ok { Ok(()) } else { Err(()) })
    }
}

impl CallbackReadData for DiskCb {
    fn seek_read(&mut self, start: u32, buffer: &mut [u8]) -> Result<usize, CallbackError> {
        self.tick()?;
        let base = self.seek_base.unwrap_or(0);
        if start as usize + buffer.len() > self.declared_data && self.oob_request.is_none() {
            self.oob_request = Some(format!("seek_read(start {}, len {}) with a data section of {} bytes", start, buffer.len(), self.declared_data));
        }
        let at = base + start as usize;
        let n = buffer.len().min(self.data.len().saturating_sub(at));
        if n > 0 {
            buffer[..n].copy_from_slice(&self.data[at..at + n]);
        }
        if n < buffer.len() {
            self.short_reads += 1;
        }
        Ok(n)
    }
    fn alloc_data_buffer(&mut self, length: usize) -> Result<(), CallbackError> {
        self.tick()?;
        self.max_alloc = self.max_alloc.max(length);
        if length > self.alloc_limit {
            self.alloc_refused += 1;
            return Err(CallbackError);
        }
        self.buffer = vec![0xAA; length];
        Ok(())
    }
    fn data_buffer(&mut self) -> &mut [u8] {
        &mut self.buffer
    }
}

pub struct DfEngine;

impl DfEngine {
    /// Calls everything the raw reader exposes. Returns what it saw (for comparison on intact files).
    fn traverse(reader: &Reader, cb: &mut DiskCb) -> (Vec<u16>, Vec<MItem>, Vec<Result<Vec<u8>, String>>) {
        let types: Vec<u16> = reader.item_types().collect();
        let items: Vec<MItem> = reader.items().map(|i| MItem { type_id: i.type_id, id: i.id, data: i.data.to_vec() }).collect();
        for &t in &types {
            let n = reader.item_type_items(t).count();
            let r = reader.item_type_indices(t);
            assert_eq!(n, r.end - r.start, "harness: item_type_items vs indices");
        }
        for t in [0u16, 1, 5, 0x7fff, 0xffff] {
            let _ = reader.item_type_items(t).count();
            let _ = reader.find_item(t, 0);
        }
        let _ = reader.version();
        let mut data = Vec::new();
        for i in 0..reader.num_data() {
            match reader.read_data(cb, i) {
                Ok(()) => data.push(Ok(cb.data_buffer().to_vec())),
                Err(e) => data.push(Err(format!("{:?}", e))),
            }
        }
        (types, items, data)
    }

    /// Reads the same bytes through datafile::Reader (file.rs) from a real temp file, optionally behind a junk prefix.
    /// via_file runs through `Reader::new`: in half of them the application keeps a duplicate of the file handle
    fn shares_cursor(cfg: &DfCfg) -> bool {
        !(cfg.file_prefix == 0 && cfg.seed & 1 == 0) && cfg.seed & 2 != 0
    }

    fn file_traverse(cfg: &DfCfg, bytes: &[u8]) -> Result<Result<(Vec<u16>, Vec<MItem>, Vec<Result<Vec<u8>, String>>), String>, PanicInfo> {
        use std::io::{Seek, SeekFrom, Write};
        let path = std::env::temp_dir().join(format!("tw2sim-df-{}-{:016x}-{:?}.dat", std::process::id(), cfg.seed, std::thread::current().id()).replace(['(', ')'], ""));
        let prefix = cfg.file_prefix as usize;
        {
            let mut f = match std::fs::File::create(&path) {
                Ok(f) => f,
                Err(e) => return Ok(Err(format!("harness: cannot create temp file: {}", e))),
            };
            let junk: Vec<u8> = (0..prefix).map(|i| (i * 7 + 3) as u8).collect();
            let _ = f.write_all(&junk);
            let _ = f.write_all(bytes);
        }
        let r = guard(|| {
            // a second handle to the same open file (dup: one shared cursor) stays with the application, which
            // moves the cursor between the reader's calls
            let mut shared: Option<std::fs::File> = None;
            let mut reader = if prefix == 0 && cfg.seed & 1 == 0 {
                libtw2_datafile::Reader::open(&path).map_err(|e| format!("{:?}", e))?
            } else {
                let mut f = std::fs::File::open(&path).map_err(|e| format!("harness: {}", e))?;
                f.seek(SeekFrom::Start(prefix as u64)).map_err(|e| format!("harness: {}", e))?;
                if Self::shares_cursor(cfg) {
                    shared = f.try_clone().ok();
                }
                libtw2_datafile::Reader::new(f).map_err(|e| format!("{:?}", e))?
            };
            let is_shared = shared.is_some();
            let file_len = (prefix + bytes.len()) as u64;
            let mut moves = 0u64;
            let mut disturb = |k: u64| {
                if let Some(o) = shared.as_mut() {
                    let to = mix(cfg.seed, 0x63757273, k) % (file_len + 1);
                    let _ = o.seek(SeekFrom::Start(to));
                    moves += 1;
                }
            };
            disturb(0);
            let types: Vec<u16> = reader.item_types().collect();
            let items: Vec<MItem> = reader.items().map(|i| MItem { type_id: i.type_id, id: i.id, data: i.data.to_vec() }).collect();
            for &t in &types {
                let _ = reader.item_type_items(t).count();
            }
            let data: Vec<Result<Vec<u8>, String>> = if is_shared {
                let mut out = Vec::new();
                for i in 0..reader.num_data() {
                    out.push(reader.read_data(i).map_err(|e| format!("{:?}", e)));
                    disturb(1 + i as u64);
                }
                out
            } else {
                reader.data_iter().map(|d| d.map_err(|e| format!("{:?}", e))).collect()
            };
            // every other accessor of the file-level reader must agree with the iterators
            let mut inconsistent: Option<String> = None;
            let _ = reader.version();
            if reader.num_items() != items.len() {
                inconsistent = Some(format!("num_items() = {} but items() yields {}", reader.num_items(), items.len()));
            }
            if reader.num_item_types() != types.len() {
                inconsistent = Some(format!("num_item_types() = {} but item_types() yields {}", reader.num_item_types(), types.len()));
            }
            for (k, &t) in types.iter().enumerate() {
                if k < reader.num_item_types() && reader.item_type(k) != t {
                    inconsistent = Some(format!("item_type({}) = {} but item_types() yields {}", k, reader.item_type(k), t));
                }
                let range = reader.item_type_indices(t);
                let by_range: Vec<(u16, u16)> = range.clone().filter(|&i| i < reader.num_items()).map(|i| (reader.item(i).type_id, reader.item(i).id)).collect();
                let by_iter: Vec<(u16, u16)> = reader.item_type_items(t).map(|i| (i.type_id, i.id)).collect();
                if by_range != by_iter {
                    inconsistent = Some(format!("item_type_indices({}) = {:?} disagrees with item_type_items", t, range));
                }
            }
            for (i, it) in items.iter().enumerate().take(400) {
                let v = reader.item(i);
                if v.type_id != it.type_id || v.id != it.id || v.data != &it.data[..] {
                    inconsistent = Some(format!("item({}) differs from the {}th element of items()", i, i));
                }
                match reader.find_item(it.type_id, it.id) {
                    Some(f) if f.type_id == it.type_id && f.id == it.id => {}
                    other => inconsistent = Some(format!("find_item({}, {}) returned {:?} although such an item exists", it.type_id, it.id, other.map(|f| (f.type_id, f.id)))),
                }
            }
            if reader.num_data() != data.len() {
                inconsistent = Some(format!("num_data() = {} but data_iter() yields {}", reader.num_data(), data.len()));
            }
            for i in 0..reader.num_data().min(data.len()).min(8) {
                let again = reader.read_data(i).map_err(|e| format!("{:?}", e));
                if again.is_ok() != data[i].is_ok() || (again.is_ok() && again.as_ref().ok() != data[i].as_ref().ok()) {
                    inconsistent = Some(format!("read_data({}) differs from the {}th element of data_iter()", i, i));
                }
            }
            // (the dump formats every item and re-reads every data block: only for small files)
            if items.len() <= 300 && items.iter().map(|i| i.data.len()).sum::<usize>() <= 2000 && data.iter().map(|d| d.as_ref().map(|x| x.len()).unwrap_or(0)).sum::<usize>() <= 65_536 {
                let _ = reader.debug_dump();
            }
            if let Some(x) = inconsistent {
                return Err(format!("INCONSISTENT {}", x));
            }
            Ok((types, items, data))
        });
        let _ = std::fs::remove_file(&path);
        r
    }

    fn map_traverse(cfg: &DfCfg, bytes: &[u8]) -> Result<(u32, MapSeen), PanicInfo> {
        // the map layer reads through datafile::Reader over a real file
        let dir = std::env::temp_dir();
        let path = dir.join(format!("tw2sim-map-{}-{:016x}-{:?}.map", std::process::id(), cfg.seed, std::thread::current().id()).replace(['(', ')'], ""));
        if std::fs::write(&path, bytes).is_err() {
            return Ok((0, MapSeen::default()));
        }
        let r = guard(|| {
            let mut n = 0u32;
            let mut seen = MapSeen::default();
            // both ways to open a map: through an opened datafile, or by path
            let mut m = if cfg.seed & 2 == 0 {
                let df = match libtw2_datafile::Reader::open(&path) {
                    Ok(d) => d,
                    Err(_) => return (0, seen),
                };
                libtw2_map::reader::Reader::from_datafile(df)
            } else {
                match libtw2_map::reader::Reader::open(&path) {
                    Ok(m) => m,
                    Err(_) => return (0, seen),
                }
            };
            let _ = m.check_version();
            let _ = m.version();
            if let Ok(info) = m.info() {
                n += 1;
                if let Some(a) = info.author {
                    let _ = m.string(a);
                }
                if let Some(s) = info.settings {
                    if let Ok(s) = m.settings(s) {
                        n += s.iter().count() as u32;
                    }
                }
            }
            for i in m.reader.item_type_indices(2) {
                if let Ok(img) = m.image(i) {
                    n += 1;
                    let _ = m.image_name(img.name);
                    if let Some(d) = img.data {
                        let _ = m.image_data(d);
                    }
                }
            }
            if let Ok(gl) = m.game_layers() {
                n += 1000;
                if m.layer_tiles(gl.game()).is_ok() {
                    n += 1;
                }
                if let Some(t) = gl.teleport() {
                    let ok = m.tele_layer_tiles(t).map(|_| n += 1).is_ok();
                    seen.special.push((2, ok));
                }
                if let Some(t) = gl.speedup() {
                    let ok = m.speedup_layer_tiles(t).map(|_| n += 1).is_ok();
                    seen.special.push((4, ok));
                }
                if let Some(t) = gl.front() {
                    let ok = m.layer_tiles(t).map(|_| n += 1).is_ok();
                    seen.special.push((8, ok));
                }
                if let Some(t) = gl.switch() {
                    let ok = m.switch_layer_tiles(t).map(|_| n += 1).is_ok();
                    seen.special.push((16, ok));
                }
                if let Some(t) = gl.tune() {
                    let ok = m.tune_layer_tiles(t).map(|_| n += 1).is_ok();
                    seen.special.push((32, ok));
                }
            }
            for gi in m.group_indices() {
                match m.group(gi) {
                    Ok(g) => {
                        n += 1;
                        seen.groups_ok += 1;
                        seen.names.push(g.name);
                        for li in g.layer_indices.clone() {
                            match m.layer(li) {
                                Ok(l) => {
                                    n += 1;
                                    seen.layers_ok += 1;
                                    match l.t {
                                        libtw2_map::reader::LayerType::Quads(q) => {
                                            seen.names.push(q.name);
                                            let _ = m.reader.read_data(q.data);
                                            n += 1;
                                            seen.kinds[0] += 1;
                                        }
                                        libtw2_map::reader::LayerType::Tilemap(t) => {
                                            seen.kinds[1] += 1;
                                            seen.names.push(t.name);
                                            let _ = t.type_.tiles();
                                            if let Some(normal) = t.type_.to_normal() {
                                                let idx = t.tiles(normal.data);
                                                match m.layer_tiles(idx) {
                                                    Ok(a) => {
                                                        n += 1;
                                                        let (h, w) = a.dim();
                                                        if h as u64 != t.height as u64 || w as u64 != t.width as u64 {
                                                            seen.errors.push(format!("layer {}: tile array is {}x{} but the layer says {}x{}", li, w, h, t.width, t.height));
                                                        }
                                                    }
                                                    Err(e) => seen.errors.push(format!("layer {}: layer_tiles failed: {:?}", li, e)),
                                                }
                                                match m.layer_tiles_raw(normal.data) {
                                                    Ok(tiles) => {
                                                        let flat: Vec<u8> = tiles.iter().flat_map(|t| [t.index, t.flags, t.skip, t.reserved]).collect();
                                                        seen.tiles.push((normal.data, flat));
                                                    }
                                                    Err(e) => seen.errors.push(format!("layer {}: layer_tiles_raw failed: {:?}", li, e)),
                                                }
                                            }
                                        }
                                        libtw2_map::reader::LayerType::DdraceSounds(sl) => {
                                            seen.kinds[2] += 1;
                                            seen.names.push(sl.name);
                                            let _ = m.reader.read_data(sl.data);
                                        }
                                    }
                                }
                                Err(e) => seen.errors.push(format!("layer {}: {:?}", li, e)),
                            }
                        }
                    }
                    Err(e) => seen.errors.push(format!("group {}: {:?}", gi, e)),
                }
            }
            (n, seen)
        });
        let _ = std::fs::remove_file(&path);
        r
    }
}

/// What the map traversal saw (compared with the model for well-formed maps).
#[derive(Default)]
struct MapSeen {
    groups_ok: usize,
    layers_ok: usize,
    /// quads, tilemap, sounds
    kinds: [usize; 3],
    /// (data index, tile bytes) of every normal / game tile layer
    tiles: Vec<(usize, Vec<u8>)>,
    /// (tile-layer flag, tiles readable) of the special game layers
    special: Vec<(i32, bool)>,
    /// the name of every group and layer parsed
    names: Vec<[u8; 12]>,
    errors: Vec<String>,
}

impl Engine for DfEngine {
    type Cfg = DfCfg;
    type Op = DfOp;
    fn engine_name(&self) -> &'static str {
        "datafile"
    }
    fn property(&self) -> &'static str {
        "C16"
    }
    fn budget(&self) -> (u64, u64) {
        (250_000, 300)
    }

    fn generate(&self, seed: u64, _tier: Tier) -> Case<DfCfg, DfOp> {
        let mut c = Prng::stream(seed, 1);
        let mut s = Prng::stream(seed, 2);
        let cfg = DfCfg {
            seed: c.next_u64(),
            version: if c.chance(1, 2) { 3 } else { 4 },
            compress: c.below(3) as u8,
            n_types: c.range(0, 5) as u8,
            n_items: c.range(0, 12) as u8,
            n_data: *c.pick(&[0u8, 1, 2, 3, 6]),
            map: c.chance(1, 5),
            via_file: c.chance(1, 10),
            file_prefix: if c.chance(1, 3) { *c.pick(&[1u16, 4, 100, 8191, 8192, 9000]) } else { 0 },
            huge_data: c.chance(1, 500),
            many: if c.chance(1, 8) { 1 + c.below(3) as u8 } else { 0 },
        };
        let mut ops = Vec::new();
        let n_faults = match c.below(6) {
            0 | 1 => 0, // intact file: strict oracle
            2 | 3 => 1,
            4 => 2,
            _ => c.range(2, 5),
        };
        for _ in 0..n_faults {
            match s.weighted(&[3, 10, 3, 2, 1, 1, 3]) {
                0 => ops.push(DfOp::Truncate { at: s.next_u64() as u32 }),
                1 => ops.push(DfOp::Rot { region: s.below(7) as u8, field: s.below(64) as u32, val: s.below(BOUNDARY.len() as u64) as u8 }),
                2 => ops.push(DfOp::FlipBit { at: s.next_u64() as u32, bit: s.below(8) as u8 }),
                3 => ops.push(DfOp::CbError { at_call: s.range(1, 30) as u8 }),
                4 => ops.push(DfOp::ShrinkAfterOpen { n: *s.pick(&[1u32, 4, 100, 100000]) }),
                5 => ops.push(DfOp::AllocLimit { bytes: *s.pick(&[0u32, 1, 100, 5000]) }),
                _ if s.chance(1, 2) => ops.push(DfOp::RotHeader { field: s.below(5) as u8, delta: *s.pick(&[1i8, 2, 3, 4, -1, -2, -3, -4, 5, 8, 127, -128]) }),
                _ => ops.push(DfOp::RotShift { item: s.below(16) as u8, delta: *s.pick(&[1i8, 2, 3, 4, -1, -2, -4, 8]) }),
            }
        }
        Case { cfg, ops }
    }

    fn execute(&self, case: &Case<DfCfg, DfOp>, ctx: &mut Ctx) -> Option<Violation> {
        let cfg = &case.cfg;
        ctx.ops_executed += case.ops.len() as u64 + 1;
        let m = model(cfg);
        let lay = serialize(cfg, &m);
        let mut bytes = lay.bytes.clone();
        let mut fail_at = None;
        let mut shrink = 0usize;
        let mut alloc_limit = 64 << 20;
        let mut damaged = false;
        let mut read_time_only_faults = 0usize;
        for op in &case.ops {
            match *op {
                DfOp::Truncate { at } => {
                    let k = at as usize % (bytes.len() + 1);
                    bytes.truncate(k);
                    ctx.count("fault_torn_tail");
                    damaged = true;
                }
                DfOp::Rot { region, field, val } => {
                    let (a, b) = lay.regions[region as usize % 7];
                    let n = (b - a) / 4;
                    if n > 0 {
                        let off = a + 4 * (field as usize % n);
                        if off + 4 <= bytes.len() {
                            bytes[off..off + 4].copy_from_slice(&BOUNDARY[val as usize % BOUNDARY.len()].to_le_bytes());
                            ctx.count("fault_bit_rot_field");
                            damaged = true;
                        }
                    }
                }
                DfOp::RotShift { item, delta } => {
                    let (ia, _) = lay.regions[5];
                    let (oa, ob) = lay.regions[2];
                    let n = (ob - oa) / 4;
                    let rd = |b: &Vec<u8>, at: usize| -> Option<i64> { b.get(at..at.checked_add(4)?).map(|x| i32::from_le_bytes([x[0], x[1], x[2], x[3]]) as i64) };
                    let wr = |b: &mut Vec<u8>, at: i64, val: i64| -> bool {
                        if at < 0 || (at as usize).saturating_add(4) > b.len() {
                            return false;
                        }
                        b[at as usize..at as usize + 4].copy_from_slice(&(val as i32).to_le_bytes());
                        true
                    };
                    if n >= 2 {
                        let k = item as usize % (n - 1);
                        let d = delta as i64;
                        (|| -> Option<()> {
                            let off_k = rd(&bytes, oa + 4 * k)?;
                            let off_k1 = rd(&bytes, oa + 4 * (k + 1))?;
                            if off_k < 0 || off_k1 < 0 || off_k > 1 << 24 || off_k1 > 1 << 24 {
                                return None;
                            }
                            let size_k = rd(&bytes, ia + off_k as usize + 4)?;
                            let hdr1 = rd(&bytes, ia + off_k1 as usize)?;
                            let size_k1 = rd(&bytes, ia + off_k1 as usize + 4)?;
                            wr(&mut bytes, ia as i64 + off_k + 4, size_k + d);
                            wr(&mut bytes, (oa + 4 * (k + 1)) as i64, off_k1 + d);
                            // the moved header of item k+1 (it now starts `delta` bytes later)
                            wr(&mut bytes, ia as i64 + off_k1 + d, hdr1);
                            wr(&mut bytes, ia as i64 + off_k1 + d + 4, size_k1 - d);
                            Some(())
                        })();
                        ctx.count("fault_bit_rot_coherent");
                        damaged = true;
                    }
                }
                DfOp::RotHeader { field, delta } => {
                    // header ints: 0 magic, 1 version, 2 size, 3 swaplen, 4 num_item_types, 5 num_items, 6 num_data, 7 size_items, 8 size_data
                    if bytes.len() >= 36 {
                        let rd = |b: &Vec<u8>, k: usize| i32::from_le_bytes([b[4 * k], b[4 * k + 1], b[4 * k + 2], b[4 * k + 3]]) as i64;
                        let wr = |b: &mut Vec<u8>, k: usize, v: i64| b[4 * k..4 * k + 4].copy_from_slice(&(v as i32).to_le_bytes());
                        let d = delta as i64;
                        let v4 = rd(&bytes, 1) == 4;
                        // (header int, bytes of size/swaplen per unit)
                        let (k, per_size, per_swap): (usize, i64, i64) = match field % 5 {
                            0 => (7, 1, 1),
                            1 => (8, 1, 0),
                            2 => (5, 4, 4),
                            3 => (6, if v4 { 8 } else { 4 }, if v4 { 8 } else { 4 }),
                            _ => (4, 12, 12),
                        };
                        let v = rd(&bytes, k) + d;
                        wr(&mut bytes, k, v);
                        let size = rd(&bytes, 2) + d * per_size;
                        wr(&mut bytes, 2, size);
                        let swap = rd(&bytes, 3) + d * per_swap;
                        wr(&mut bytes, 3, swap);
                        ctx.count("fault_bit_rot_coherent");
                        damaged = true;
                    }
                }
                DfOp::FlipBit { at, bit } => {
                    if !bytes.is_empty() {
                        let k = at as usize % bytes.len();
                        bytes[k] ^= 1 << (bit % 8);
                        ctx.count("fault_bit_flip");
                        damaged = true;
                    }
                }
                DfOp::CbError { at_call } => {
                    fail_at = Some(at_call as u64);
                    damaged = true;
                    read_time_only_faults += 1;
                }
                DfOp::ShrinkAfterOpen { n } => {
                    shrink = n as usize;
                    damaged = true;
                }
                DfOp::AllocLimit { bytes: b } => {
                    alloc_limit = b as usize;
                    damaged = true;
                    read_time_only_faults += 1;
                }
            }
        }
        if damaged {
            ctx.fault_inflight = true;
        }
        ctx.logf(|| format!("file: version {} {} bytes, {} items, {} data blocks, map layout {}, damaged {}", cfg.version, bytes.len(), m.items.len(), m.data.len(), cfg.map, damaged));
        let mut cb = DiskCb { data: bytes.clone(), pos: 0, seek_base: None, calls: 0, fail_at, shrink_after_open: shrink, alloc_limit, buffer: Vec::new(), errors_fired: 0, alloc_refused: 0, short_reads: 0, oob_request: None, declared_data: lay.size_data, max_alloc: 0 };
        let res = guard(|| match Reader::new(&mut cb) {
            Err(e) => Err(format!("{:?}", e)),
            Ok(reader) => Ok(DfEngine::traverse(&reader, &mut cb)),
        });
        ctx.oracle_event = true;
        ctx.count_n("fault_callback_error", cb.errors_fired);
        ctx.count_n("fault_alloc_refused", cb.alloc_refused);
        if shrink > 0 {
            ctx.count("fault_file_shrinks_after_open");
        }
        ctx.t(cb.calls);
        ctx.t(crate::prng::fnv1a(&bytes));
        let res = match res {
            Ok(r) => r,
            Err(p) => {
                let class = if p.is_budget() { "unbounded-loop" } else { "panic" };
                return Some(v(class, &[("layer", "datafile"), ("message", &p.msg_class()), ("file", &p.file_class())], format!("the datafile reader panicked on a {} file: {} at {}:{}", if damaged { "damaged" } else { "well-formed" }, p.msg, p.file, p.line)));
            }
        };
        // requests must stay inside the declared data section unless the header itself was changed
        let header_touched = case.ops.iter().any(|o| matches!(o, DfOp::Rot { region: 0, .. } | DfOp::Rot { region: 3, .. } | DfOp::FlipBit { .. } | DfOp::Truncate { .. } | DfOp::RotShift { .. } | DfOp::RotHeader { .. }));
        if let (Some(o), false) = (&cb.oob_request, header_touched) {
            return Some(v("read-request-out-of-bounds", &[], format!("the reader asked the disk for bytes outside the data section: {}", o)));
        }
        match (&res, damaged) {
            (Err(e), false) => {
                return Some(v("well-formed-file-rejected", &[("version", &cfg.version.to_string())], format!("the reader rejected a well-formed version {} file: {}", cfg.version, e)));
            }
            (Ok((types, items, data)), false) => {
                ctx.count("probe_intact_file_read");
                let mut want_types: Vec<u16> = m.items.iter().map(|i| i.type_id).collect();
                want_types.dedup();
                if *types != want_types {
                    return Some(v("stored-content-differs", &[("what", "item-types")], format!("item_types() = {:?}, stored {:?}", types, want_types)));
                }
                if *items != m.items {
                    return Some(v("stored-content-differs", &[("what", "items")], format!("items() returned {} items, stored {}; first difference at {:?}", items.len(), m.items.len(), items.iter().zip(m.items.iter()).position(|(a, b)| a != b))));
                }
                for (i, (g, w)) in data.iter().zip(m.data.iter()).enumerate() {
                    match g {
                        Ok(d) if d == w => {}
                        Ok(d) => return Some(v("stored-content-differs", &[("what", "data")], format!("read_data({}) returned {} bytes, stored {} (version {}, encoding {})", i, d.len(), w.len(), cfg.version, cfg.compress))),
                        Err(e) => return Some(v("stored-content-differs", &[("what", "data-error")], format!("read_data({}) failed on a well-formed file: {}", i, e))),
                    }
                }
                if data.len() != m.data.len() {
                    return Some(v("stored-content-differs", &[("what", "data-count")], format!("{} data blocks read, {} stored", data.len(), m.data.len())));
                }
                // find_item: the first stored item with that (type, id)
                let mut first: BTreeMap<(u16, u16), &MItem> = BTreeMap::new();
                for it in &m.items {
                    first.entry((it.type_id, it.id)).or_insert(it);
                }
                let mut cb2 = DiskCb { data: bytes.clone(), pos: 0, seek_base: None, calls: 0, fail_at: None, shrink_after_open: 0, alloc_limit: 64 << 20, buffer: Vec::new(), errors_fired: 0, alloc_refused: 0, short_reads: 0, oob_request: None, declared_data: lay.size_data, max_alloc: 0 };
                if let Ok(Ok(reader)) = guard(|| Reader::new(&mut cb2)) {
                    for (&(t, id), it) in &first {
                        match guard(|| reader.find_item(t, id).map(|i| i.data.to_vec())) {
                            Ok(Some(d)) if d == it.data => {}
                            Ok(other) => return Some(v("stored-content-differs", &[("what", "find_item")], format!("find_item({}, {}) returned {:?}, stored {:?}", t, id, other.map(|d| d.len()), it.data.len()))),
                            Err(p) => return Some(v("panic", &[("layer", "datafile"), ("message", &p.msg_class()), ("file", &p.file_class())], format!("find_item panicked: {}", p.msg))),
                        }
                    }
                    let v4 = matches!(reader.version(), Version::V4 | Version::V4Crude);
                    if v4 != (cfg.version == 4) {
                        return Some(v("stored-content-differs", &[("what", "version")], format!("version() = {:?} for a version {} file", reader.version(), cfg.version)));
                    }
                }
            }
            (Ok((types, items, data)), true) if read_time_only_faults == case.ops.len() => {
                // the stored bytes are intact; only reads failed (one hard error, refused allocations): an operation
                // may fail, but whatever succeeds must be exactly what was stored
                ctx.count("probe_intact_file_read_with_io_errors");
                let mut want_types: Vec<u16> = m.items.iter().map(|i| i.type_id).collect();
                want_types.dedup();
                if *types != want_types || *items != m.items {
                    return Some(v("stored-content-differs", &[("what", "items"), ("under", "read-errors")], format!("with read-time faults only: {} items / {} types returned, {} / {} stored", items.len(), types.len(), m.items.len(), want_types.len())));
                }
                for (i, (g, w)) in data.iter().zip(m.data.iter()).enumerate() {
                    if let Ok(d) = g {
                        if d != w {
                            return Some(v("stored-content-differs", &[("what", "data"), ("under", "read-errors")], format!("with read-time faults only: read_data({}) succeeded with {} bytes that differ from the {} stored bytes", i, d.len(), w.len())));
                        }
                    }
                }
                if data.len() != m.data.len() {
                    return Some(v("stored-content-differs", &[("what", "data-count"), ("under", "read-errors")], format!("{} data blocks visited, {} stored", data.len(), m.data.len())));
                }
            }
            (Ok(_), true) => ctx.count("probe_damaged_file_accepted"),
            (Err(_), true) => ctx.count("probe_damaged_file_rejected"),
        }
        ctx.state(((cfg.version as u64) << 8) | ((damaged as u64) << 4) | (res.is_ok() as u64) << 1 | cfg.map as u64);
        // the same bytes through the real file plumbing
        if cfg.via_file && !cfg.map && fail_at.is_none() && shrink == 0 && alloc_limit >= (64 << 20) {
            match DfEngine::file_traverse(cfg, &bytes) {
                Err(p) => {
                    let class = if p.is_budget() { "unbounded-loop" } else { "panic" };
                    return Some(v(class, &[("layer", "datafile-file"), ("message", &p.msg_class()), ("file", &p.file_class())], format!("datafile::Reader over a real file panicked on a {} file: {} at {}:{}", if damaged { "damaged" } else { "well-formed" }, p.msg, p.file, p.line)));
                }
                Ok(Err(e)) => {
                    if e.starts_with("harness:") {
                        ctx.count("probe_tempfile_unavailable");
                    } else if let Some(x) = e.strip_prefix("INCONSISTENT ") {
                        if !damaged {
                            return Some(v("accessors-disagree", &[("layer", "datafile-file")], format!("datafile::Reader over a real file, well-formed version {} file: {}", cfg.version, x)));
                        }
                    } else if !damaged {
                        return Some(v("well-formed-file-rejected", &[("layer", "datafile-file"), ("prefix", if cfg.file_prefix > 0 { "yes" } else { "no" })], format!("datafile::Reader over a real file (prefix {} bytes, tables+items {} bytes) rejected a well-formed version {} file: {}", cfg.file_prefix, lay.data_start, cfg.version, e)));
                    }
                }
                Ok(Ok((types, items, data))) => {
                    ctx.count("probe_via_file_read");
                    if DfEngine::shares_cursor(cfg) {
                        ctx.count("fault_shared_file_cursor_moved");
                    }
                    if lay.data_start > 8192 {
                        ctx.count("probe_via_file_tables_over_8k");
                    }
                    if cfg.file_prefix > 0 {
                        ctx.count("probe_via_file_with_prefix");
                    }
                    if !damaged {
                        let mut want_types: Vec<u16> = m.items.iter().map(|i| i.type_id).collect();
                        want_types.dedup();
                        if types != want_types || items != m.items {
                            return Some(v("stored-content-differs", &[("what", "items"), ("layer", "datafile-file")], format!("through the real file: {} items / {} types read, {} / {} stored", items.len(), types.len(), m.items.len(), want_types.len())));
                        }
                        for (i, (g, w)) in data.iter().zip(m.data.iter()).enumerate() {
                            match g {
                                Ok(d) if d == w => {}
                                Ok(d) => return Some(v("stored-content-differs", &[("what", "data"), ("layer", "datafile-file"), ("prefix", if cfg.file_prefix > 0 { "yes" } else { "no" })], format!("through the real file (datafile starting at offset {}): read_data({}) returned {} bytes that differ from the {} stored bytes", cfg.file_prefix, i, d.len(), w.len()))),
                                Err(e) => return Some(v("stored-content-differs", &[("what", "data-error"), ("layer", "datafile-file"), ("prefix", if cfg.file_prefix > 0 { "yes" } else { "no" })], format!("through the real file (datafile starting at offset {}): read_data({}) failed on a well-formed file: {}", cfg.file_prefix, i, e))),
                            }
                        }
                        if data.len() != m.data.len() {
                            return Some(v("stored-content-differs", &[("what", "data-count"), ("layer", "datafile-file")], format!("{} data blocks read through the file, {} stored", data.len(), m.data.len())));
                        }
                    }
                }
            }
        }
        // map layer over a real file with the same (possibly damaged) content
        if cfg.map && fail_at.is_none() && shrink == 0 {
            match DfEngine::map_traverse(cfg, &bytes) {
                Ok((n, seen)) => {
                    ctx.count("probe_map_traversed");
                    if n >= 1000 {
                        ctx.count("probe_map_game_layers_ok");
                    }
                    if n % 1000 >= 8 {
                        ctx.count("probe_map_8plus_accessors_ok");
                    }
                    ctx.t(n as u64);
                    if !damaged && n < 1003 {
                        return Some(v("well-formed-file-rejected", &[("layer", "map")], format!("the map reader got through only {} accessors of a well-formed map (game layers ok: {})", n % 1000, n >= 1000)));
                    }
                    if !damaged {
                        ctx.count("probe_map_intact_read");
                        // a well-formed map: every group and layer parses, kinds and tile data equal what was stored
                        let want_groups = m.items.iter().filter(|i| i.type_id == 4).count();
                        let layers: Vec<&MItem> = m.items.iter().filter(|i| i.type_id == 5).collect();
                        let want_kinds = [layers.iter().filter(|l| l.data[1] == 3).count(), layers.iter().filter(|l| l.data[1] == 2).count(), layers.iter().filter(|l| l.data[1] == 9 || l.data[1] == 10).count()];
                        let mut want_special: Vec<i32> = layers.iter().filter(|l| l.data[1] == 2 && l.data[6] > 1).map(|l| l.data[6]).collect();
                        want_special.sort();
                        let mut got_special: Vec<i32> = seen.special.iter().map(|s| s.0).collect();
                        got_special.sort();
                        // names of all groups and layers, as multisets (harness-own decoding of the stored ints)
                        let mut want_names: Vec<[u8; 12]> = m.items.iter().filter(|i| i.type_id == 4).map(|g| name_bytes(&g.data[12..15])).collect();
                        want_names.extend(layers.iter().map(|l| match l.data[1] { 2 => name_bytes(&l.data[15..18]), _ => name_bytes(&l.data[7..10]) }));
                        want_names.sort();
                        let mut got_names = seen.names.clone();
                        got_names.sort();
                        let problem = if let Some(e) = seen.errors.first() {
                            Some(format!("{} ({} problems)", e, seen.errors.len()))
                        } else if seen.groups_ok != want_groups || seen.layers_ok != layers.len() {
                            Some(format!("{} groups / {} layers parsed, {} / {} stored", seen.groups_ok, seen.layers_ok, want_groups, layers.len()))
                        } else if seen.kinds != want_kinds {
                            Some(format!("layer kinds (quads, tilemap, sounds) read {:?}, stored {:?}", seen.kinds, want_kinds))
                        } else if got_special != want_special || seen.special.iter().any(|s| !s.1) {
                            Some(format!("special game layers read {:?}, stored {:?}", seen.special, want_special))
                        } else if got_names != want_names {
                            let i = got_names.iter().zip(want_names.iter()).position(|(a, b)| a != b).unwrap_or(0);
                            Some(format!("group / layer names read {:?}.., stored {:?}.. ({} / {} names)", got_names.get(i), want_names.get(i), got_names.len(), want_names.len()))
                        } else {
                            seen.tiles.iter().find(|(di, flat)| m.data.get(*di).map(|d| d != flat).unwrap_or(true)).map(|(di, flat)| format!("tiles of data block {}: {} bytes read, {:?} stored, or contents differ", di, flat.len(), m.data.get(*di).map(|d| d.len())))
                        };
                        if let Some(p) = problem {
                            return Some(v("stored-content-differs", &[("layer", "map")], format!("well-formed map: {}", p)));
                        }
                        if seen.kinds[2] > 0 {
                            ctx.count("probe_map_sounds_layer");
                        }
                        if seen.special.iter().any(|s| s.0 == 8) {
                            ctx.count("probe_map_front_layer");
                        }
                    }
                }
                Err(p) => {
                    let class = if p.is_budget() { "unbounded-loop" } else { "panic" };
                    return Some(v(class, &[("layer", "map"), ("message", &p.msg_class()), ("file", &p.file_class())], format!("the map reader panicked on a {} map: {} at {}:{}", if damaged { "damaged" } else { "well-formed" }, p.msg, p.file, p.line)));
                }
            }
        }
        None
    }

    fn simplify_op(&self, op: &DfOp) -> Vec<DfOp> {
        match *op {
            DfOp::Rot { region, field, val } if field > 0 => vec![DfOp::Rot { region, field: field - 1, val }, DfOp::Rot { region, field: 0, val }],
            _ => vec![],
        }
    }
    fn simplify_cfg(&self, cfg: &DfCfg) -> Vec<DfCfg> {
        let mut v = Vec::new();
        if cfg.n_data > 0 {
            v.push(DfCfg { n_data: 0, ..cfg.clone() });
            v.push(DfCfg { n_data: cfg.n_data - 1, ..cfg.clone() });
        }
        if cfg.n_items > 0 {
            v.push(DfCfg { n_items: cfg.n_items - 1, ..cfg.clone() });
        }
        if cfg.many != 0 {
            v.push(DfCfg { many: 0, ..cfg.clone() });
        }
        if cfg.n_types > 1 {
            v.push(DfCfg { n_types: cfg.n_types - 1, ..cfg.clone() });
        }
        v
    }
    fn info(&self) -> EngineInfo {
        EngineInfo {
            rule: "one run = a reference model (item types, items, data blocks; or a semi-structured map: version/info/images/groups/tile layers) serialised by a harness-own writer as a version 3 or version 4 file (zlib stored blocks written by hand, two block splits), then storage faults between write and read (torn tail at any offset, single fields overwritten with boundary values in every region, bit flips) and during read (hard error at the k-th callback call, file shrinking after the size check, allocation refusal). Intact files: every accessor must return exactly the model. Damaged: values or errors, no panic, callback budget, data requests inside the declared data section. The map layer runs over a real temp file with the same bytes. Non-trivial = a storage fault was applied AND the reader was driven; distinct = distinct trace hash.".into(),
            assumptions: vec![
                "the read callbacks follow their read-fully contract (a short count means end of file): fragmentation is not a legal schedule at this seam".into(),
                "honest limit: sampling of storage faults around well-formed files; the property's 'every file content' is an input-space statement that simulation touches only through those faults".into(),
                "libz (C) runs for real; Miri cannot cross it, so the memory-safety half for this engine is ASan only".into(),
            ],
            real: vec!["datafile::raw::Reader (header, tables, check(), item/data accessors)", "datafile::format", "zlib-minimal + libz", "map::reader::Reader over datafile::Reader over a temp file (file.rs plumbing)"],
            stub: vec!["the disk behind CallbackNew / CallbackReadData (simulated)"],
            required_probes: vec!["probe_intact_file_read", "probe_damaged_file_accepted", "probe_damaged_file_rejected", "probe_map_traversed", "probe_map_intact_read", "probe_map_game_layers_ok", "probe_map_8plus_accessors_ok", "probe_via_file_read", "probe_via_file_tables_over_8k", "probe_via_file_with_prefix"],
            fault_kinds: vec!["fault_torn_tail", "fault_bit_rot_field", "fault_bit_rot_coherent", "fault_bit_flip", "fault_callback_error", "fault_file_shrinks_after_open", "fault_alloc_refused", "fault_shared_file_cursor_moved"],
        }
    }
}
