//! Engine `demo` (C15): real demo writers/readers (low-level and typed DDNet
//! level) over a simulated disk whose reads and writes are fragmented and
//! interrupted by a seeded schedule. What the writer accepted must come back
//! from the reader, whatever legal I/O behaviour the disk shows.

use crate::core::*;
use crate::prng::{mix, Prng};
use crate::simdisk::SimDisk;
use libtw2_common::digest::Sha256;
use libtw2_demo::ddnet::{Chunk, DemoReader, DemoWriter};
use libtw2_demo::{DemoKind, RawChunk, Reader, Writer};
use libtw2_gamenet_ddnet::msg::game as g;
use libtw2_gamenet_ddnet::snap_obj as so;
use libtw2_gamenet_ddnet::Protocol;
use serde::{Deserialize, Serialize};
use std::collections::BTreeMap;

#[derive(Clone, Debug, Serialize, Deserialize)]
pub struct DemoCfg {
    pub seed: u64,
    pub typed: bool,
    pub sha256: bool,
    /// header string lengths (net_version < 64, map_name < 64, timestamp < 20), map size
    pub hdr: [u8; 3],
    pub map_len: u32,
    pub first_tick: i32,
    /// per-mille: short writes, EINTR on write, short reads, EINTR on read
    pub io: [u16; 4],
    /// largest piece one read returns (0 = unlimited)
    pub max_read: u16,
    /// raw level: write through the single entry point `Writer::write_chunk(RawChunk)` instead of the four methods
    #[serde(default)]
    pub via_chunk: bool,
}

#[derive(Clone, Debug, Serialize, Deserialize, PartialEq)]
#[serde(tag = "op")]
pub enum DemoOp {
    // raw level
    Tick { inc: u32, keyframe: bool },
    Snapshot { len: u32, fill: u8, salt: u32 },
    Delta { len: u32, fill: u8, salt: u32 },
    Message { len: u32, fill: u8, salt: u32 },
    /// raw level: the next write call of the disk fails without writing anything (a transient error such as a
    /// full disk); the API call it belongs to must report the error, its chunk counts as not accepted, and the
    /// recording goes on
    WriteError,
    // typed level
    /// `inc` may be 0 or negative: the writer must refuse with an error
    Snap { inc: i32, muts: u8, salt: u32 },
    /// typed level: a message that cannot fit the writer's 64 KiB buffer: must be refused with an error,
    /// is not part of the recording, and the recording goes on
    MsgTooLong { salt: u32 },
    /// typed level: the current world plus `n` characters with extreme field values under fresh ids: depending on
    /// `n` the snapshot fits, is too large for the writer's 64 KiB packing buffer, or is refused by the snapshot
    /// builder; a refused call is not part of the recording, which goes on
    SnapHuge { n: u16, salt: u32 },
    /// typed level: a `write_snap` call for the next tick whose object list names the same (type, id) twice:
    /// the writer must refuse it with an error; it is not part of the recording, which goes on afterwards
    SnapDuplicateId { salt: u32 },
    Msg { kind: u8, len: u16, salt: u32 },
}

#[derive(Clone, Debug, PartialEq)]
enum MChunk {
    Tick(i32, bool),
    Snapshot(Vec<u8>),
    Delta(Vec<u8>),
    Message(Vec<u8>),
}

fn v(class: &str, keys: &[(&str, &str)], obs: String) -> Violation {
    Violation::new("C15", class, keys, obs)
}

fn data(seed: u64, len: usize, fill: u8, salt: u32) -> Vec<u8> {
    let mut r = Prng::new(mix(seed, salt as u64, 0x64656d6f));
    let mut d = vec![0u8; len];
    match fill % 3 {
        0 => {}
        1 => r.fill(&mut d),
        _ => {
            let mut i = 0;
            while i < len {
                let b = r.below(256) as u8;
                let n = 1 + r.usize_below(60);
                for x in d[i..len.min(i + n)].iter_mut() {
                    *x = b;
                }
                i += n;
            }
        }
    }
    d
}

struct Hdr {
    net_version: Vec<u8>,
    map_name: Vec<u8>,
    timestamp: Vec<u8>,
    map: Vec<u8>,
    sha: Option<Sha256>,
    crc: u32,
    length: i32,
    server: bool,
}

fn header(cfg: &DemoCfg) -> Hdr {
    let mut r = Prng::new(mix(cfg.seed, 0x686472, 0));
    // header strings are bytes: mostly printable ASCII, in a third of the runs any non-NUL bytes (Latin-1 names,
    // UTF-8 cut in the middle of a character at the capacity, 0x80 / 0xff)
    let any_bytes = r.chance(1, 3);
    let s = |r: &mut Prng, n: usize| -> Vec<u8> { (0..n).map(|_| if any_bytes && r.chance(1, 2) { *r.pick(&[0x80u8, 0xff, 0xe9, 0xc3, 0xa4, 0xf0, 0x9f, 0x01, 0x7f]) } else { 0x21 + r.below(0x5e) as u8 }).collect() };
    Hdr {
        net_version: s(&mut r, cfg.hdr[0].min(63) as usize),
        map_name: s(&mut r, cfg.hdr[1].min(63) as usize),
        timestamp: s(&mut r, cfg.hdr[2].min(19) as usize),
        map: r.bytes(cfg.map_len.min(200_000) as usize),
        sha: if cfg.sha256 {
            let mut b = [0u8; 32];
            r.fill(&mut b);
            Some(Sha256(b))
        } else {
            None
        },
        crc: r.next_u64() as u32,
        length: r.below(1 << 30) as i32,
        server: r.chance(1, 2),
    }
}

/// Known, documented limits of the low-level writer (asserts / expects): out of the property's domain.
fn out_of_domain(p: &PanicInfo) -> bool {
    p.msg.contains("too long compression") || p.msg.contains("overlong message")
}

// ---------------------------------------------------------------------------
// typed world

#[derive(Clone, Debug, PartialEq, Eq, PartialOrd, Ord)]
enum Obj {
    Pickup([i32; 4]),
    Flag([i32; 3]),
    Laser([i32; 5]),
    GameInfoEx([i32; 3]),
    // further UUID-typed kinds of different sizes (their raw type numbers are assigned per snapshot, in order of first use)
    MyOwnObject([i32; 1]),
    DdnetPlayer([i32; 2]),
    EntityEx([i32; 3]),
    SpecChar([i32; 2]),
}

const N_KINDS: u64 = 8;

impl Obj {
    fn to_snap_obj(&self) -> so::SnapObj {
        match *self {
            Obj::Pickup(a) => so::SnapObj::Pickup(so::Pickup { x: a[0], y: a[1], type_: a[2], subtype: a[3] }),
            Obj::Flag(a) => so::SnapObj::Flag(so::Flag { x: a[0], y: a[1], team: a[2] }),
            Obj::Laser(a) => so::SnapObj::Laser(so::Laser { x: a[0], y: a[1], from_x: a[2], from_y: a[3], start_tick: libtw2_gamenet_ddnet::snap_obj::Tick(a[4]) }),
            Obj::GameInfoEx(a) => so::SnapObj::GameInfoEx(so::GameInfoEx { flags: a[0], version: a[1], flags2: a[2] }),
            Obj::MyOwnObject(a) => so::SnapObj::MyOwnObject(so::MyOwnObject { test: a[0] }),
            Obj::DdnetPlayer(a) => so::SnapObj::DdnetPlayer(so::DdnetPlayer { flags: a[0], auth_level: a[1] }),
            Obj::EntityEx(a) => so::SnapObj::EntityEx(so::EntityEx { switch_number: a[0], layer: a[1], entity_class: a[2] }),
            Obj::SpecChar(a) => so::SnapObj::SpecChar(so::SpecChar { x: a[0], y: a[1] }),
        }
    }
    fn gen(r: &mut Prng, kind: u64) -> Obj {
        match kind % N_KINDS {
            4 => Obj::MyOwnObject([r.i32_edge()]),
            5 => Obj::DdnetPlayer([r.i32_edge(), r.below(4) as i32]),
            6 => Obj::EntityEx([r.i32_edge(), r.i32_edge(), r.i32_edge()]),
            7 => Obj::SpecChar([r.i32_edge(), r.i32_edge()]),
            0 => Obj::Pickup([r.i32_edge(), r.i32_edge(), r.below(6) as i32, r.below(1 << 20) as i32]),
            1 => Obj::Flag([r.i32_edge(), r.i32_edge(), r.below(2) as i32]),
            2 => Obj::Laser([r.i32_edge(), r.i32_edge(), r.i32_edge(), r.i32_edge(), r.i32_edge()]),
            _ => Obj::GameInfoEx([r.i32_edge(), r.i32_edge(), r.i32_edge()]),
        }
    }
    fn kind(&self) -> u8 {
        match self {
            Obj::Pickup(_) => 0,
            Obj::Flag(_) => 1,
            Obj::Laser(_) => 2,
            Obj::GameInfoEx(_) => 3,
            Obj::MyOwnObject(_) => 4,
            Obj::DdnetPlayer(_) => 5,
            Obj::EntityEx(_) => 6,
            Obj::SpecChar(_) => 7,
        }
    }
}

#[derive(Clone, Debug, PartialEq)]
enum TChunk {
    Tick(i32),
    /// sorted (type id rendering, id, ints)
    Snapshot(Vec<(String, u16, Vec<i32>)>),
    Message(String),
}

fn render(objs: &[(so::SnapObj, u16)]) -> Vec<(String, u16, Vec<i32>)> {
    let mut v: Vec<(String, u16, Vec<i32>)> = objs.iter().map(|(o, id)| (format!("{:?}", o.obj_type_id()), *id, o.encode().to_vec())).collect();
    v.sort();
    v
}

fn msg_text(seed: u64, len: u16, salt: u32) -> Vec<u8> {
    let mut r = Prng::new(mix(seed, salt as u64, 0x6d7367));
    (0..len).map(|_| b"abcdefghij klmnopqrstuvwxyz0123456789."[r.usize_below(38)]).collect()
}

pub struct DemoEngine;

impl DemoEngine {
    fn disk(cfg: &DemoCfg, stream: u64, faulty: bool, data: Vec<u8>) -> SimDisk {
        let mut d = SimDisk::new(data, mix(cfg.seed, 0x6469736b, stream));
        if faulty {
            d.short_write = cfg.io[0] as u64;
            d.intr_write = cfg.io[1] as u64;
            d.short_read = cfg.io[2] as u64;
            d.intr_read = cfg.io[3] as u64;
            d.max_read = cfg.max_read as usize;
        }
        d
    }

    fn count_io(ctx: &mut Ctx, d: &SimDisk) {
        ctx.count_n("fault_short_write", d.stats.short_writes);
        ctx.count_n("fault_eintr_write", d.stats.intr_writes);
        ctx.count_n("fault_short_read", d.stats.short_reads);
        ctx.count_n("fault_eintr_read", d.stats.intr_reads);
        ctx.count_n("fault_transient_write_error", d.fail_once_fired.get() as u64);
        if d.fail_once_fired.get() > 0 {
            ctx.fault_inflight = true;
        }
        if d.stats.short_writes + d.stats.intr_writes + d.stats.short_reads + d.stats.intr_reads > 0 {
            ctx.fault_inflight = true;
        }
    }

    // ---------------- raw level

    /// Writes the history; returns the accepted chunk list, or a violation / out-of-domain.
    fn raw_write(cfg: &DemoCfg, ops: &[DemoOp], disk: &mut SimDisk, ctx: &mut Ctx, log: bool) -> Result<Vec<MChunk>, Option<Violation>> {
        let h = header(cfg);
        let mut model: Vec<MChunk> = Vec::new();
        let arm_cell = disk.fail_once.clone();
        let fired_cell = disk.fail_once_fired.clone();
        let res = guard(|| -> Result<(), String> {
            let mut w = Writer::new(&mut *disk, &h.net_version, &h.map_name, h.sha, h.crc, if h.server { DemoKind::Server } else { DemoKind::Client }, h.length, &h.timestamp, &h.map).map_err(|e| format!("Writer::new: {}", e))?;
            let mut tick: i64 = cfg.first_tick as i64;
            let mut have_tick = false;
            // Some(fired-counter before the call) while a transient write error is armed
            let mut armed: Option<u32> = None;
            // Outcome of an API call made while an error may be armed: Ok(true) = chunk accepted
            let settle = |r: Result<(), String>, armed: &mut Option<u32>| -> Result<bool, String> {
                match armed.take() {
                    None => r.map(|()| true),
                    Some(before) => {
                        let fired = fired_cell.get() > before;
                        arm_cell.set(false);
                        match (fired, r) {
                            (true, Err(_)) => Ok(false),
                            (true, Ok(())) => Err("TW2SIM-SWALLOWED a failed write was not reported by the writer".into()),
                            (false, r) => r.map(|()| true),
                        }
                    }
                }
            };
            for op in ops {
                match *op {
                    DemoOp::WriteError => {
                        arm_cell.set(true);
                        armed = Some(fired_cell.get());
                    }
                    DemoOp::Tick { inc, keyframe } => {
                        tick += inc.max(1) as i64;
                        if tick > i32::MAX as i64 {
                            break;
                        }
                        let r = if cfg.via_chunk {
                            w.write_chunk(RawChunk::Tick { tick: tick as i32, keyframe }).map_err(|e| format!("write_chunk(Tick): {}", e))
                        } else {
                            w.write_tick(keyframe, tick as i32).map_err(|e| format!("write_tick: {}", e))
                        };
                        if settle(r, &mut armed)? {
                            model.push(MChunk::Tick(tick as i32, keyframe));
                            have_tick = true;
                        }
                    }
                    DemoOp::Snapshot { len, fill, salt } => {
                        if !have_tick {
                            continue;
                        }
                        let d = data(cfg.seed, raw_len(len, fill), fill, salt);
                        let r = if cfg.via_chunk && d.len() <= 65536 {
                            let mut av: Box<arrayvec::ArrayVec<[u8; 65536]>> = Box::new(arrayvec::ArrayVec::new());
                            av.extend(d.iter().cloned());
                            w.write_chunk(RawChunk::Snapshot(&av)).map_err(|e| format!("write_chunk(Snapshot): {}", e))
                        } else {
                            w.write_snapshot(&d).map_err(|e| format!("write_snapshot: {}", e))
                        };
                        if settle(r, &mut armed)? {
                            model.push(MChunk::Snapshot(d));
                        }
                    }
                    DemoOp::Delta { len, fill, salt } => {
                        if !have_tick {
                            continue;
                        }
                        let d = data(cfg.seed, raw_len(len, fill), fill, salt);
                        let r = if cfg.via_chunk && d.len() <= 65536 {
                            let mut av: Box<arrayvec::ArrayVec<[u8; 65536]>> = Box::new(arrayvec::ArrayVec::new());
                            av.extend(d.iter().cloned());
                            w.write_chunk(RawChunk::SnapshotDelta(&av)).map_err(|e| format!("write_chunk(SnapshotDelta): {}", e))
                        } else {
                            w.write_snapshot_delta(&d).map_err(|e| format!("write_snapshot_delta: {}", e))
                        };
                        if settle(r, &mut armed)? {
                            model.push(MChunk::Delta(d));
                        }
                    }
                    DemoOp::Message { len, fill, salt } => {
                        if !have_tick {
                            continue;
                        }
                        // arbitrary content up to 12 KiB; compressible content up to beyond the 64 KiB the reader can return
                        let d = data(cfg.seed, if fill % 3 == 0 { (len as usize).min(70_000) } else { raw_len(len, fill).min(12_000) }, fill, salt);
                        let r = if cfg.via_chunk {
                            w.write_chunk(RawChunk::Message(&d)).map_err(|e| format!("write_chunk(Message): {}", e))
                        } else {
                            w.write_message(&d).map_err(|e| format!("write_message: {}", e))
                        };
                        if settle(r, &mut armed)? {
                            let mut padded = d.clone();
                            while padded.len() % 4 != 0 {
                                padded.push(0);
                            }
                            model.push(MChunk::Message(padded));
                        }
                    }
                    _ => {}
                }
            }
            Ok(())
        });
        let _ = (ctx, log);
        match res {
            Ok(Ok(())) => Ok(model),
            Ok(Err(e)) if e.starts_with("TW2SIM-SWALLOWED") => Err(Some(v("write-error-swallowed", &[], "a write call of the disk failed but the writer reported success for the chunk".into()))),
            Ok(Err(e)) => Err(Some(v("write-error-on-healthy-disk", &[], format!("the writer reported an error although the disk only showed legal short writes / EINTR: {}", e)))),
            Err(p) if out_of_domain(&p) => Err(None),
            Err(p) => Err(Some(v("panic", &[("side", "writer"), ("message", &p.msg_class()), ("file", &p.file_class())], format!("low-level writer panicked: {} at {}:{}", p.msg, p.file, p.line)))),
        }
    }

    fn raw_read(cfg: &DemoCfg, disk: &mut SimDisk, model: &[MChunk]) -> Option<Violation> {
        let h = header(cfg);
        let res = guard(|| -> Result<Option<Violation>, String> {
            let mut warn: Vec<libtw2_demo::Warning> = Vec::new();
            let mut r = Reader::new(&mut *disk, &mut warn).map_err(|e| format!("Reader::new: {}", e))?;
            let hdr_ok = r.net_version() == &h.net_version[..]
                && r.map_name() == &h.map_name[..]
                && r.timestamp() == &h.timestamp[..]
                && r.map_data() == &h.map[..]
                && r.map_size() as usize == h.map.len()
                && r.map_crc() == h.crc
                && r.length() == h.length
                && matches!((r.kind(), h.server), (DemoKind::Server, true) | (DemoKind::Client, false))
                && r.map_sha256().map(|s| s.0) == h.sha.map(|s| s.0)
                && r.timeline_markers().is_empty();
            if !hdr_ok {
                return Ok(Some(v("header-differs", &[], format!("header read back differs: net_version {:?}/{:?} map_name {:?}/{:?} timestamp {:?}/{:?} crc {}/{} length {}/{} map {} / {} bytes", String::from_utf8_lossy(r.net_version()), String::from_utf8_lossy(&h.net_version), String::from_utf8_lossy(r.map_name()), String::from_utf8_lossy(&h.map_name), String::from_utf8_lossy(r.timestamp()), String::from_utf8_lossy(&h.timestamp), r.map_crc(), h.crc, r.length(), h.length, r.map_data().len(), h.map.len()))));
            }
            let mut i = 0usize;
            loop {
                let c = r.read_chunk(&mut warn).map_err(|e| format!("read_chunk #{}: {}", i, e))?;
                let got = match c {
                    None => break,
                    Some(RawChunk::Tick { tick, keyframe }) => MChunk::Tick(tick, keyframe),
                    Some(RawChunk::Snapshot(d)) => MChunk::Snapshot(d.to_vec()),
                    Some(RawChunk::SnapshotDelta(d)) => MChunk::Delta(d.to_vec()),
                    Some(RawChunk::Message(d)) => MChunk::Message(d.to_vec()),
                    Some(RawChunk::Unknown) => return Ok(Some(v("chunk-differs", &[("what", "unknown-chunk")], format!("chunk #{} read back as Unknown", i)))),
                };
                if i >= model.len() {
                    return Ok(Some(v("chunk-differs", &[("what", "extra-chunk")], format!("reader returned chunk #{} but only {} were written", i, model.len()))));
                }
                if got != model[i] {
                    let what = match (&got, &model[i]) {
                        (MChunk::Tick(..), MChunk::Tick(..)) => "tick",
                        (MChunk::Snapshot(_), MChunk::Snapshot(_)) | (MChunk::Delta(_), MChunk::Delta(_)) => "payload",
                        (MChunk::Message(_), MChunk::Message(_)) => "message",
                        _ => "kind",
                    };
                    return Ok(Some(v("chunk-differs", &[("what", what)], format!("chunk #{} read back as {} but {} was written", i, brief(&got), brief(&model[i])))));
                }
                i += 1;
            }
            if i != model.len() {
                return Ok(Some(v("chunk-differs", &[("what", "missing-chunks")], format!("reader returned {} chunks, {} were written", i, model.len()))));
            }
            if !warn.is_empty() {
                return Ok(Some(v("warning-on-own-demo", &[("warning", &format!("{:?}", warn[0]))], format!("reader warned {:?} about a demo the writer produced", warn))));
            }
            Ok(None)
        });
        match res {
            Ok(Ok(v)) => v,
            Ok(Err(e)) => Some(v("read-error-on-own-demo", &[("error", &e.chars().filter(|c| !c.is_ascii_digit()).take(60).collect::<String>())], format!("reader failed on a demo the writer produced: {}", e))),
            Err(p) => Some(v("panic", &[("side", "reader"), ("message", &p.msg_class()), ("file", &p.file_class())], format!("low-level reader panicked: {} at {}:{}", p.msg, p.file, p.line))),
        }
    }

    // ---------------- typed level

    fn typed_write(cfg: &DemoCfg, ops: &[DemoOp], disk: &mut SimDisk, ctx: &mut Ctx, count: bool) -> Result<Vec<TChunk>, Option<Violation>> {
        let h = header(cfg);
        let mut model: Vec<TChunk> = Vec::new();
        let mut refused = 0u64;
        let mut dup_refused = 0u64;
        let mut io_refused = 0u64;
        let mut long_refused = 0u64;
        let mut huge_ok = 0u64;
        let mut huge_refused = 0u64;
        let mut snaps = 0u64;
        let mut keyframe_span = false;
        let arm_cell = disk.fail_once.clone();
        let fired_cell = disk.fail_once_fired.clone();
        let res = guard(|| -> Result<Option<Violation>, String> {
            let mut armed: Option<u32> = None;
            let mut w: DemoWriter<Protocol> = DemoWriter::new(&mut *disk, &h.net_version, &h.map_name, h.sha, h.crc, if h.server { DemoKind::Server } else { DemoKind::Client }, h.length, &h.timestamp, &h.map).map_err(|e| format!("DemoWriter::new: {}", e))?;
            let mut world: BTreeMap<(u8, u16), Obj> = BTreeMap::new();
            let mut last_tick: Option<i32> = None;
            let mut first_tick: Option<i32> = None;
            for op in ops {
                match *op {
                    DemoOp::Snap { inc, muts, salt } => {
                        let mut r = Prng::new(mix(cfg.seed, salt as u64, 0x736e6170));
                        for _ in 0..muts {
                            let kind = r.below(N_KINDS);
                            let id = r.below(12) as u16;
                            match r.below(3) {
                                0 => {
                                    world.remove(&(kind as u8, id));
                                }
                                _ => {
                                    let o = Obj::gen(&mut r, kind);
                                    world.insert((o.kind(), id), o);
                                }
                            }
                        }
                        let tick = match last_tick {
                            None => cfg.first_tick.max(0) as i64 + inc.max(0) as i64,
                            Some(t) => t as i64 + inc as i64,
                        };
                        if tick > i32::MAX as i64 || tick < i32::MIN as i64 {
                            continue;
                        }
                        let tick = tick as i32;
                        let objs: Vec<(so::SnapObj, u16)> = world.iter().map(|(&(_, id), o)| (o.to_snap_obj(), id)).collect();
                        let must_refuse = last_tick.map(|t| tick <= t).unwrap_or(false);
                        let r = w.write_snap(tick, objs.iter().map(|(o, id)| (o, *id)));
                        if let Some(before) = armed.take() {
                            arm_cell.set(false);
                            if fired_cell.get() > before {
                                // the first write of the call (the tick marker) failed and wrote nothing
                                if r.is_ok() {
                                    return Ok(Some(v("write-error-swallowed", &[("level", "typed")], "a write call of the disk failed but write_snap reported success".into())));
                                }
                                io_refused += 1;
                                continue;
                            }
                        }
                        match r {
                            Ok(()) => {
                                if must_refuse {
                                    return Ok(Some(v("non-increasing-tick-accepted", &[], format!("write_snap accepted tick {} after tick {:?}", tick, last_tick))));
                                }
                                model.push(TChunk::Tick(tick));
                                model.push(TChunk::Snapshot(render(&objs)));
                                last_tick = Some(tick);
                                snaps += 1;
                                if first_tick.is_none() {
                                    first_tick = Some(tick);
                                }
                                if tick as i64 - first_tick.unwrap() as i64 > 251 {
                                    keyframe_span = true;
                                }
                            }
                            Err(e) => {
                                if !must_refuse {
                                    return Err(format!("write_snap(tick {}) after {:?}: {}", tick, last_tick, e));
                                }
                                refused += 1;
                            }
                        }
                    }
                    DemoOp::WriteError => {
                        arm_cell.set(true);
                        armed = Some(fired_cell.get());
                    }
                    DemoOp::SnapHuge { n, salt } => {
                        if armed.take().is_some() {
                            arm_cell.set(false);
                        }
                        let mut r = Prng::new(mix(cfg.seed, salt as u64, 0x68756765));
                        let tick = match last_tick {
                            None => cfg.first_tick.max(0) as i64 + 1,
                            Some(t) => t as i64 + 1,
                        };
                        if tick > i32::MAX as i64 {
                            continue;
                        }
                        let tick = tick as i32;
                        let mut objs: Vec<(so::SnapObj, u16)> = world.iter().map(|(&(_, id), o)| (o.to_snap_obj(), id)).collect();
                        for k in 0..n.min(1100) {
                            let big = |r: &mut Prng| if r.chance(9, 10) { *r.pick(&[i32::MIN, i32::MAX, i32::MIN + 1, -(1 << 28), 1 << 28]) } else { r.i32_edge() };
                            // free fields take extreme values, constrained fields stay inside the ranges the codec asserts
                            let core = so::CharacterCore { tick: big(&mut r), x: big(&mut r), y: big(&mut r), vel_x: big(&mut r), vel_y: big(&mut r), angle: big(&mut r), direction: r.range(0, 2) as i32 - 1, jumped: r.range(0, 3) as i32, hooked_player: r.range(0, 128) as i32 - 1, hook_state: r.range(0, 6) as i32 - 1, hook_tick: big(&mut r), hook_x: big(&mut r), hook_y: big(&mut r), hook_dx: big(&mut r), hook_dy: big(&mut r) };
                            let ch = so::Character { character_core: core, player_flags: r.range(0, 256) as i32, health: r.range(0, 10) as i32, armor: r.range(0, 10) as i32, ammo_count: r.range(0, 11) as i32 - 1, weapon: r.range(0, 6) as i32 - 1, emote: libtw2_gamenet_ddnet::enums::Emote::Normal, attack_tick: big(&mut r).wrapping_abs().max(0) };
                            if salt & 1 == 0 {
                                objs.push((so::SnapObj::Character(ch), 100 + k));
                            } else {
                                // almost every field free: packs to more bytes than it takes as integers
                                let ci = so::ClientInfo { name: [big(&mut r), big(&mut r), big(&mut r), big(&mut r)], clan: [big(&mut r), big(&mut r), big(&mut r)], country: big(&mut r), skin: [big(&mut r), big(&mut r), big(&mut r), big(&mut r), big(&mut r), big(&mut r)], use_custom_color: r.below(2) as i32, color_body: big(&mut r), color_feet: big(&mut r) };
                                objs.push((so::SnapObj::ClientInfo(ci), 100 + k));
                            }
                        }
                        match w.write_snap(tick, objs.iter().map(|(o, id)| (o, *id))) {
                            Ok(()) => {
                                model.push(TChunk::Tick(tick));
                                model.push(TChunk::Snapshot(render(&objs)));
                                last_tick = Some(tick);
                                snaps += 1;
                                huge_ok += 1;
                                if first_tick.is_none() {
                                    first_tick = Some(tick);
                                }
                            }
                            Err(_) => huge_refused += 1,
                        }
                    }
                    DemoOp::SnapDuplicateId { salt } => {
                        if armed.take().is_some() {
                            arm_cell.set(false);
                        }
                        let mut r = Prng::new(mix(cfg.seed, salt as u64, 0x64757065));
                        let tick = match last_tick {
                            None => cfg.first_tick.max(0) as i64 + 1,
                            Some(t) => t as i64 + 1,
                        };
                        if tick > i32::MAX as i64 {
                            continue;
                        }
                        // the current world plus one object of an existing kind under an id that is already taken
                        let mut objs: Vec<(so::SnapObj, u16)> = world.iter().map(|(&(_, id), o)| (o.to_snap_obj(), id)).collect();
                        let kind = r.below(N_KINDS);
                        let a = Obj::gen(&mut r, kind);
                        let b = Obj::gen(&mut r, kind);
                        let id = r.below(12) as u16;
                        objs.retain(|(o, i)| !(*i == id && format!("{:?}", o.obj_type_id()) == format!("{:?}", a.to_snap_obj().obj_type_id())));
                        let at = r.usize_below(objs.len() + 1);
                        objs.insert(at, (a.to_snap_obj(), id));
                        objs.push((b.to_snap_obj(), id));
                        match w.write_snap(tick as i32, objs.iter().map(|(o, id)| (o, *id))) {
                            Err(_) => dup_refused += 1,
                            Ok(()) => return Ok(Some(v("invalid-snapshot-accepted", &[], format!("write_snap accepted tick {} although two objects share type and id {}", tick, id)))),
                        }
                    }
                    DemoOp::MsgTooLong { salt } => {
                        if armed.take().is_some() {
                            arm_cell.set(false);
                        }
                        if last_tick.is_none() {
                            continue;
                        }
                        let mut r = Prng::new(mix(cfg.seed, salt as u64, 0x6c6f6e67));
                        let n = 65_536 + r.usize_below(5000);
                        let text: Vec<u8> = (0..n).map(|_| b"abcdefghij klmnopqrstuvwxyz"[r.usize_below(27)]).collect();
                        let m = if r.chance(1, 2) { g::Game::SvMotd(g::SvMotd { message: &text }) } else { g::Game::SvBroadcast(g::SvBroadcast { message: &text }) };
                        match w.write_msg(&m) {
                            Err(_) => long_refused += 1,
                            Ok(()) => return Ok(Some(v("invalid-message-accepted", &[], format!("write_msg accepted a {}-byte message text", n)))),
                        }
                    }
                    DemoOp::Msg { kind, len, salt } => {
                        if last_tick.is_none() {
                            if armed.take().is_some() {
                                arm_cell.set(false);
                            }
                            continue;
                        }
                        let text = msg_text(cfg.seed, len.min(900), salt);
                        let m = match kind % 3 {
                            0 => g::Game::SvMotd(g::SvMotd { message: &text }),
                            1 => g::Game::SvBroadcast(g::SvBroadcast { message: &text }),
                            _ => g::Game::SvReadyToEnter(g::SvReadyToEnter),
                        };
                        let r = w.write_msg(&m);
                        if let Some(before) = armed.take() {
                            arm_cell.set(false);
                            if fired_cell.get() > before {
                                if r.is_ok() {
                                    return Ok(Some(v("write-error-swallowed", &[("level", "typed")], "a write call of the disk failed but write_msg reported success".into())));
                                }
                                io_refused += 1;
                                continue;
                            }
                        }
                        r.map_err(|e| format!("write_msg: {}", e))?;
                        model.push(TChunk::Message(format!("{:?}", m)));
                    }
                    _ => {}
                }
            }
            Ok(None)
        });
        if count {
            ctx.count_n("probe_typed_refused_tick", refused);
            ctx.count_n("probe_typed_refused_duplicate_id", dup_refused);
            ctx.count_n("probe_typed_refused_by_write_error", io_refused);
            ctx.count_n("probe_typed_refused_long_message", long_refused);
            ctx.count_n("probe_typed_huge_snapshot_accepted", huge_ok);
            ctx.count_n("probe_typed_huge_snapshot_refused", huge_refused);
            ctx.count_n("probe_typed_snapshots", snaps);
            if keyframe_span {
                ctx.count("probe_typed_crossed_keyframe_interval");
            }
        }
        match res {
            Ok(Ok(None)) => Ok(model),
            Ok(Ok(Some(x))) => Err(Some(x)),
            Ok(Err(e)) => Err(Some(v("write-error-on-healthy-disk", &[("level", "typed")], format!("the high-level writer reported an error for a valid call: {}", e)))),
            Err(p) if out_of_domain(&p) => Err(None),
            Err(p) => Err(Some(v("panic", &[("side", "typed-writer"), ("message", &p.msg_class()), ("file", &p.file_class())], format!("high-level writer panicked: {} at {}:{}", p.msg, p.file, p.line)))),
        }
    }

    fn typed_read(disk: &mut SimDisk, model: &[TChunk]) -> Option<Violation> {
        let res = guard(|| -> Result<Option<Violation>, String> {
            let mut warn: Vec<libtw2_demo::ddnet::Warning> = Vec::new();
            let mut r: DemoReader<Protocol> = DemoReader::new(&mut *disk, &mut warn).map_err(|e| format!("DemoReader::new: {}", e))?;
            let mut i = 0usize;
            loop {
                let c = r.next_chunk(&mut warn).map_err(|e| format!("next_chunk #{}: {}", i, e))?;
                let got = match c {
                    None => break,
                    Some(Chunk::Tick(t)) => TChunk::Tick(t),
                    Some(Chunk::Snapshot(it)) => {
                        let objs: Vec<(so::SnapObj, u16)> = it.cloned().collect();
                        TChunk::Snapshot(render(&objs))
                    }
                    Some(Chunk::Message(m)) => TChunk::Message(format!("{:?}", m)),
                    Some(Chunk::Invalid) => return Ok(Some(v("typed-chunk-differs", &[("what", "invalid-chunk")], format!("chunk #{} read back as Invalid (warnings {:?})", i, warn)))),
                };
                if i >= model.len() {
                    return Ok(Some(v("typed-chunk-differs", &[("what", "extra-chunk")], format!("reader returned chunk #{} but only {} were written", i, model.len()))));
                }
                if got != model[i] {
                    let what = match (&got, &model[i]) {
                        (TChunk::Tick(_), TChunk::Tick(_)) => "tick",
                        (TChunk::Snapshot(_), TChunk::Snapshot(_)) => "object-set",
                        (TChunk::Message(_), TChunk::Message(_)) => "message",
                        _ => "kind",
                    };
                    return Ok(Some(v("typed-chunk-differs", &[("what", what)], format!("chunk #{} read back as {} but written was {}", i, tbrief(&got), tbrief(&model[i])))));
                }
                i += 1;
            }
            if i != model.len() {
                return Ok(Some(v("typed-chunk-differs", &[("what", "missing-chunks")], format!("reader returned {} chunks, {} were written", i, model.len()))));
            }
            if !warn.is_empty() {
                return Ok(Some(v("warning-on-own-demo", &[("warning", &format!("{:?}", warn[0]).chars().take(60).collect::<String>())], format!("high-level reader warned {:?} about a demo the writer produced", warn))));
            }
            Ok(None)
        });
        match res {
            Ok(Ok(v)) => v,
            Ok(Err(e)) => Some(v("read-error-on-own-demo", &[("error", &e.chars().filter(|c| !c.is_ascii_digit()).take(60).collect::<String>())], format!("high-level reader failed on a demo the writer produced: {}", e))),
            Err(p) => Some(v("panic", &[("side", "typed-reader"), ("message", &p.msg_class()), ("file", &p.file_class())], format!("high-level reader panicked: {} at {}:{}", p.msg, p.file, p.line))),
        }
    }
}

fn raw_len(len: u32, fill: u8) -> usize {
    // arbitrary content up to 16 KiB; larger payloads only when highly compressible (writer's documented limit)
    if fill % 3 == 0 {
        len.min(60_000) as usize
    } else {
        len.min(16_384) as usize
    }
}

fn brief(c: &MChunk) -> String {
    match c {
        MChunk::Tick(t, k) => format!("Tick({}, keyframe={})", t, k),
        MChunk::Snapshot(d) => format!("Snapshot({} bytes, fnv {:08x})", d.len(), crate::prng::fnv1a(d) as u32),
        MChunk::Delta(d) => format!("SnapshotDelta({} bytes, fnv {:08x})", d.len(), crate::prng::fnv1a(d) as u32),
        MChunk::Message(d) => format!("Message({} bytes, fnv {:08x})", d.len(), crate::prng::fnv1a(d) as u32),
    }
}

fn tbrief(c: &TChunk) -> String {
    match c {
        TChunk::Tick(t) => format!("Tick({})", t),
        TChunk::Snapshot(o) => format!("Snapshot({} objects: {:?})", o.len(), o.iter().take(4).collect::<Vec<_>>()),
        TChunk::Message(m) => format!("Message({})", m.chars().take(60).collect::<String>()),
    }
}

impl Engine for DemoEngine {
    type Cfg = DemoCfg;
    type Op = DemoOp;
    fn engine_name(&self) -> &'static str {
        "demo"
    }
    fn property(&self) -> &'static str {
        "C15"
    }
    fn budget(&self) -> (u64, u64) {
        (20_000, 300)
    }

    fn generate(&self, seed: u64, tier: Tier) -> Case<DemoCfg, DemoOp> {
        let mut c = Prng::stream(seed, 1);
        let mut s = Prng::stream(seed, 2);
        let typed = c.chance(2, 5);
        let fault_free = c.chance(1, 5);
        let f = |c: &mut Prng, p: u64| -> u16 {
            if !fault_free && c.chance(p, 100) {
                c.range(20, 700) as u16
            } else {
                0
            }
        };
        let io = [f(&mut c, 60), f(&mut c, 40), f(&mut c, 60), f(&mut c, 40)];
        let max_read = if !fault_free && c.chance(1, 4) { *c.pick(&[1u16, 2, 3, 7, 64]) } else { 0 };
        let cfg = DemoCfg {
            seed: c.next_u64(),
            typed,
            sha256: c.chance(1, 2),
            hdr: [*c.pick(&[0u8, 1, 10, 62, 63]), *c.pick(&[0u8, 1, 10, 62, 63]), *c.pick(&[0u8, 1, 10, 18, 19])],
            map_len: *c.pick(&[0u32, 1, 100, 5000, 70_000]),
            first_tick: *c.pick(&[0i32, 0, 1, 1000, 2_000_000_000, -1, -1000, i32::MIN, i32::MIN + 7]),
            io,
            max_read,
            via_chunk: c.chance(1, 3),
        };
        let n = match c.below(8) {
            0..=3 => c.range(2, 15),
            4..=6 => c.range(15, 60),
            _ => {
                if tier == Tier::Thorough {
                    c.range(60, 400)
                } else {
                    c.range(60, 150)
                }
            }
        };
        let mut ops = Vec::new();
        let sizes = |s: &mut Prng| -> u32 {
            match s.below(10) {
                0 => *s.pick(&[0u32, 1, 2, 3, 4, 5]),
                1 | 2 => *s.pick(&[28u32, 29, 30, 31, 32, 33, 40, 60, 254, 255, 256, 257, 300, 400]),
                3..=6 => s.range(0, 400) as u32,
                7 => s.range(400, 4000) as u32,
                8 => s.range(4000, 16_384) as u32,
                _ => *s.pick(&[16_384u32, 30_000, 60_000, 65_531, 65_532, 65_533, 65_535, 65_536, 65_537, 65_540, 70_000]),
            }
        };
        let typed_write_errors = !fault_free && c.chance(1, 4);
        if typed {
            for _ in 0..n {
                if s.chance(3, 4) {
                    let inc = match s.below(12) {
                        0 => 0,
                        1 => -(s.range(1, 50) as i32),
                        2 | 3 => s.range(30, 70) as i32,
                        4 => s.range(240, 260) as i32,
                        5 => s.range(1000, 100_000) as i32,
                        _ => s.range(1, 8) as i32,
                    };
                    if s.chance(1, 12) {
                        ops.push(DemoOp::SnapDuplicateId { salt: s.next_u64() as u32 });
                    }
                    if s.chance(1, 40) {
                        ops.push(DemoOp::SnapHuge { n: *s.pick(&[50u16, 400, 560, 600, 650, 700, 740, 760, 800, 850, 900, 1000]), salt: s.next_u64() as u32 });
                    }
                    if typed_write_errors && s.chance(1, 10) {
                        ops.push(DemoOp::WriteError);
                    }
                    ops.push(DemoOp::Snap { inc, muts: *s.pick(&[0u8, 1, 2, 3, 6, 20]), salt: s.next_u64() as u32 });
                } else if s.chance(1, 15) {
                    if typed_write_errors && s.chance(1, 4) {
                        ops.push(DemoOp::WriteError);
                    }
                    ops.push(DemoOp::MsgTooLong { salt: s.next_u64() as u32 });
                } else {
                    if typed_write_errors && s.chance(1, 10) {
                        ops.push(DemoOp::WriteError);
                    }
                    ops.push(DemoOp::Msg { kind: s.below(3) as u8, len: *s.pick(&[0u16, 1, 2, 3, 4, 5, 27, 28, 29, 30, 200, 254, 255, 256, 900]), salt: s.next_u64() as u32 });
                }
            }
        } else {
            let write_errors = !fault_free && c.chance(1, 4);
            for _ in 0..n {
                if write_errors && s.chance(1, 8) {
                    ops.push(DemoOp::WriteError);
                }
                match s.below(8) {
                    0 | 1 | 2 => {
                        let inc = match s.below(8) {
                            0 => *s.pick(&[30u32, 31, 32, 33, 62, 63, 64, 65]),
                            1 => s.range(20, 80) as u32,
                            2 => s.range(100, 1_000_000) as u32,
                            3 => *s.pick(&[0x7fff_ffffu32, 0x8000_0000, 0x8000_0001, 0x8000_001f, 0x8000_0020, 0xffff_fff0, 3_000_000_000]),
                            _ => s.range(1, 10) as u32,
                        };
                        ops.push(DemoOp::Tick { inc, keyframe: s.chance(1, 5) });
                    }
                    3 => ops.push(DemoOp::Snapshot { len: sizes(&mut s), fill: s.below(3) as u8, salt: s.next_u64() as u32 }),
                    4 | 5 => ops.push(DemoOp::Delta { len: sizes(&mut s), fill: s.below(3) as u8, salt: s.next_u64() as u32 }),
                    _ => ops.push(DemoOp::Message { len: sizes(&mut s), fill: s.below(3) as u8, salt: s.next_u64() as u32 }),
                }
            }
        }
        Case { cfg, ops }
    }

    fn execute(&self, case: &Case<DemoCfg, DemoOp>, ctx: &mut Ctx) -> Option<Violation> {
        let cfg = &case.cfg;
        ctx.ops_executed += case.ops.len() as u64;
        let faulty = cfg.io.iter().any(|&x| x > 0) || cfg.max_read > 0;
        // reference: healthy disk
        let mut ref_disk = Self::disk(cfg, 0, false, Vec::new());
        if cfg.typed {
            let model = match Self::typed_write(cfg, &case.ops, &mut ref_disk, ctx, true) {
                Ok(m) => m,
                Err(Some(x)) => return Some(x),
                Err(None) => {
                    ctx.count("probe_out_of_domain");
                    return None;
                }
            };
            ctx.oracle_event = !model.is_empty();
            for c in &model {
                ctx.state(0x1000 | match c { TChunk::Tick(_) => 0, TChunk::Snapshot(o) => 0x10 | (o.len().min(15) as u64), TChunk::Message(m) => 0x20 | (m.len().min(300) as u64 / 32) });
            }
            ctx.t(model.len() as u64);
            ctx.logf(|| format!("typed history: {} chunks accepted, file {} bytes", model.len(), ref_disk.data.len()));
            let mut bytes = ref_disk.data.clone();
            if faulty {
                let mut d = Self::disk(cfg, 1, true, Vec::new());
                let m2 = match Self::typed_write(cfg, &case.ops, &mut d, ctx, false) {
                    Ok(m) => m,
                    Err(Some(x)) => return Some(x),
                    Err(None) => return None,
                };
                Self::count_io(ctx, &d);
                if d.data != ref_disk.data || m2 != model {
                    let at = d.data.iter().zip(ref_disk.data.iter()).position(|(a, b)| a != b);
                    return Some(v("file-depends-on-write-fragmentation", &[("level", "typed")], format!("the file written under short writes/EINTR ({} bytes) differs from the one written to a healthy disk ({} bytes); first difference at {:?}", d.data.len(), ref_disk.data.len(), at)));
                }
                bytes = d.data;
            }
            let mut rd = Self::disk(cfg, 2, faulty, bytes);
            let r = Self::typed_read(&mut rd, &model);
            Self::count_io(ctx, &rd);
            ctx.t(rd.stats.reads);
            return r;
        }
        let model = match Self::raw_write(cfg, &case.ops, &mut ref_disk, ctx, true) {
            Ok(m) => m,
            Err(Some(x)) => return Some(x),
            Err(None) => {
                ctx.count("probe_out_of_domain");
                return None;
            }
        };
        ctx.oracle_event = !model.is_empty();
        for c in &model {
            let (k, n) = match c {
                MChunk::Tick(_, kf) => (0u64, *kf as usize),
                MChunk::Snapshot(d) => (1, d.len()),
                MChunk::Delta(d) => (2, d.len()),
                MChunk::Message(d) => (3, d.len()),
            };
            let b = match n { 0 => 0u64, 1..=29 => 1, 30 => 2, 31..=254 => 3, 255 | 256 => 4, 257..=4000 => 5, _ => 6 };
            ctx.state((cfg.sha256 as u64) << 8 | k << 4 | b);
            match c {
                MChunk::Tick(..) => ctx.count("probe_raw_tick"),
                MChunk::Message(d) if d.len() % 4 == 0 => ctx.count("probe_raw_message"),
                MChunk::Snapshot(d) | MChunk::Delta(d) if d.len() > 255 => ctx.count("probe_raw_payload_over_255"),
                _ => {}
            }
        }
        ctx.t(model.len() as u64);
        ctx.logf(|| format!("raw history: {} chunks accepted, file {} bytes: {:?}", model.len(), ref_disk.data.len(), model.iter().take(12).map(brief).collect::<Vec<_>>()));
        let mut bytes = ref_disk.data.clone();
        if faulty {
            let mut d = Self::disk(cfg, 1, true, Vec::new());
            let m2 = match Self::raw_write(cfg, &case.ops, &mut d, ctx, false) {
                Ok(m) => m,
                Err(Some(x)) => return Some(x),
                Err(None) => return None,
            };
            Self::count_io(ctx, &d);
            if d.data != ref_disk.data || m2 != model {
                let at = d.data.iter().zip(ref_disk.data.iter()).position(|(a, b)| a != b);
                return Some(v("file-depends-on-write-fragmentation", &[("level", "raw")], format!("the file written under short writes/EINTR ({} bytes) differs from the one written to a healthy disk ({} bytes); first difference at {:?}", d.data.len(), ref_disk.data.len(), at)));
            }
            bytes = d.data;
        }
        let mut rd = Self::disk(cfg, 2, faulty, bytes);
        let r = Self::raw_read(cfg, &mut rd, &model);
        Self::count_io(ctx, &rd);
        ctx.t(rd.stats.reads);
        r
    }

    fn simplify_op(&self, op: &DemoOp) -> Vec<DemoOp> {
        let mut v = Vec::new();
        match *op {
            DemoOp::Tick { inc, keyframe } => {
                if inc > 1 {
                    v.push(DemoOp::Tick { inc: 1, keyframe });
                }
                if keyframe {
                    v.push(DemoOp::Tick { inc, keyframe: false });
                }
            }
            DemoOp::Snapshot { len, fill, salt } if len > 0 => v.push(DemoOp::Snapshot { len: 0, fill, salt }),
            DemoOp::Delta { len, fill, salt } if len > 0 => v.push(DemoOp::Delta { len: 0, fill, salt }),
            DemoOp::Message { len, fill, salt } if len > 0 => {
                v.push(DemoOp::Message { len: 0, fill, salt });
                v.push(DemoOp::Message { len: len / 2, fill, salt });
            }
            DemoOp::Snap { inc, muts, salt } => {
                if muts > 0 {
                    v.push(DemoOp::Snap { inc, muts: 0, salt });
                    v.push(DemoOp::Snap { inc, muts: muts / 2, salt });
                }
                if inc > 1 {
                    v.push(DemoOp::Snap { inc: 1, muts, salt });
                }
            }
            DemoOp::Msg { kind, len, salt } if len > 0 => v.push(DemoOp::Msg { kind, len: 0, salt }),
            _ => {}
        }
        v
    }
    fn simplify_cfg(&self, cfg: &DemoCfg) -> Vec<DemoCfg> {
        let mut v = Vec::new();
        if cfg.map_len > 0 {
            v.push(DemoCfg { map_len: 0, ..cfg.clone() });
        }
        if cfg.io != [0; 4] || cfg.max_read != 0 {
            v.push(DemoCfg { io: [0; 4], max_read: 0, ..cfg.clone() });
        }
        if cfg.first_tick != 0 {
            v.push(DemoCfg { first_tick: 0, ..cfg.clone() });
        }
        if cfg.sha256 {
            v.push(DemoCfg { sha256: false, ..cfg.clone() });
        }
        v
    }
    fn info(&self) -> EngineInfo {
        EngineInfo {
            rule: "one run = a writer history (raw level: ticks with gaps around the inline-delta limit, key frames, snapshot / delta / message payloads around the 29/30 and 255/256 size boundaries up to large; typed level: a world of DDNet objects incl. a UUID-typed one over more than one key-frame interval, messages, non-increasing ticks) written to a simulated disk under a seeded schedule of short writes and EINTR and read back under short reads and EINTR. Oracles: file bytes identical to the healthy-disk write; reader returns exactly the accepted chunk list (messages zero-padded to 4), same header, no warning; non-increasing typed ticks refused with an error. Non-trivial = at least one I/O fault actually fired AND at least one chunk was compared; distinct = distinct trace hash.".into(),
            assumptions: vec![
                "raw payloads of arbitrary content stay <= 16 KiB (larger only when highly compressible); header strings within capacity; raw-level ticks strictly increase (the low-level writer documents these as asserts)".into(),
                "no torn files and no hard I/O errors: the property says nothing about damaged demos".into(),
            ],
            real: vec!["demo::Writer / Reader", "demo::ddnet::DemoWriter / DemoReader with gamenet_ddnet::Protocol", "binrw", "Huffman", "packer", "snapshot"],
            stub: vec!["the file (SimDisk: Read/Write/Seek with short reads, short writes, EINTR)"],
            required_probes: vec!["probe_raw_tick", "probe_raw_message", "probe_raw_payload_over_255", "probe_typed_snapshots", "probe_typed_refused_tick", "probe_typed_crossed_keyframe_interval"],
            fault_kinds: vec!["fault_short_write", "fault_eintr_write", "fault_short_read", "fault_eintr_read", "fault_transient_write_error"],
        }
    }
}
