pub mod net;
pub mod net_exec;
pub mod net_inject;
pub mod netconn;
pub mod netgen;
pub mod snapxfer;
pub mod snapsync;
pub mod multi;
