//! Engine `multi` (C20): one real `Net` serving several remote addresses vs.
//! one shadow `Connection` per address driven by the projected sub-history
//! (refinement). Remote peers are real `Connection`s behind lossy links.

use super::netconn::*;
use crate::core::*;
use crate::prng::{mix, Prng};
use arrayvec::ArrayVec;
use libtw2_net::net as n;
use libtw2_net::net::{ChunkOrEvent, Net, PeerId};
use libtw2_net::Timestamp;
use serde::{Deserialize, Serialize};
use std::collections::BTreeMap;

pub const NADDR: usize = 40;

#[derive(Clone, Debug, Serialize, Deserialize)]
pub struct MultiCfg {
    pub seed: u64,
    pub accepting: bool,
}

#[derive(Clone, Debug, Serialize, Deserialize, PartialEq)]
#[serde(tag = "op")]
pub enum MultiOp {
    // --- application calls on the Net
    Connect { a: u8 },
    Accept { a: u8 },
    Reject { a: u8, reason_len: u8 },
    Disconnect { a: u8, reason_len: u8 },
    Ignore { a: u8 },
    Send { a: u8, vital: bool, len: u16, tag: u32 },
    Flush { a: u8 },
    SendConnless { a: u8, len: u16, tag: u32 },
    Tick,
    Advance { usec: u64 },
    SendErr { a: u8, n: u8 },
    // --- remote side of address a (a real Connection)
    RConnect { a: u8, token: bool },
    RSend { a: u8, vital: bool, len: u16, tag: u32 },
    RFlush { a: u8 },
    RTick { a: u8 },
    RAdvance { a: u8, usec: u64 },
    RDisconnect { a: u8 },
    /// garbage / hand-made datagram from address a
    Garbage { a: u8, kind: u8, salt: u64 },
    // --- links: dir 0 = remote->Net, 1 = Net->remote
    Deliver { a: u8, dir: u8, pick: i32 },
    Drop { a: u8, dir: u8, pick: i32 },
    Dup { a: u8, dir: u8, pick: i32 },
}

struct NetCb {
    now: u64,
    out: Vec<(u8, Vec<u8>, bool)>,
    cur_addr: u8,
    draws: [u32; NADDR],
    sends: [u32; NADDR],
    fail_left: [u8; NADDR],
    seed: u64,
    calls: u32,
}

fn addr_random(seed: u64, addr: u8, idx: u32, buf: &mut [u8]) {
    Prng::new(mix(seed, 0x72_6e_64 + addr as u64, idx as u64)).fill(buf)
}

impl n::Callback<u8> for NetCb {
    type Error = ();
    fn secure_random(&mut self, buffer: &mut [u8]) {
        let a = self.cur_addr as usize % NADDR;
        addr_random(self.seed, a as u8, self.draws[a], buffer);
        self.draws[a] += 1;
    }
    fn send(&mut self, addr: u8, data: &[u8]) -> Result<(), ()> {
        self.calls += 1;
        if self.calls > CALL_BUDGET {
            panic!("{} callback budget exceeded (Net send)", BUDGET_MARKER);
        }
        let a = addr as usize % NADDR;
        self.sends[a] += 1;
        if self.fail_left[a] > 0 {
            self.fail_left[a] -= 1;
            self.out.push((addr, data.to_vec(), false));
            Err(())
        } else {
            self.out.push((addr, data.to_vec(), true));
            Ok(())
        }
    }
    fn time(&mut self) -> Timestamp {
        self.calls += 1;
        if self.calls > CALL_BUDGET {
            panic!("{} callback budget exceeded (Net time)", BUDGET_MARKER);
        }
        Timestamp::from_usecs_since_epoch(self.now)
    }
}

/// Callback of a shadow connection: same clock, same per-address randomness and send failures.
struct ShadowCb<'a> {
    now: u64,
    out: &'a mut Vec<(Vec<u8>, bool)>,
    addr: u8,
    draws: &'a mut u32,
    fail_left: &'a mut u8,
    seed: u64,
}

impl<'a> libtw2_net::connection::Callback for ShadowCb<'a> {
    type Error = ();
    fn secure_random(&mut self, buffer: &mut [u8]) {
        addr_random(self.seed, self.addr, *self.draws, buffer);
        *self.draws += 1;
    }
    fn send(&mut self, data: &[u8]) -> Result<(), ()> {
        if *self.fail_left > 0 {
            *self.fail_left -= 1;
            self.out.push((data.to_vec(), false));
            Err(())
        } else {
            self.out.push((data.to_vec(), true));
            Ok(())
        }
    }
    fn time(&mut self) -> Timestamp {
        Timestamp::from_usecs_since_epoch(self.now)
    }
}

struct Shadow {
    conn: libtw2_net::connection::Connection,
    pid: PeerId,
    draws: u32,
    fail_left: u8,
    /// token flag of the connect that created the peer (None: peer created by connect())
    connect_token: Option<bool>,
}

struct Remote {
    conn: Option<AnyConn>,
    cb: SimCb,
    may_send: bool,
    closed: bool,
}

#[derive(Debug, PartialEq, Clone)]
enum MEv {
    Chunk(Vec<u8>, bool),
    Connless(Vec<u8>, bool), // (data, has pid)
    Connect,
    Ready,
    Disconnect(Vec<u8>),
}

/// `c02 = true`: the same simulation, but only the Net-level parts of property C02 are reported
/// (a missing or too-late deadline of the multi-peer endpoint, a call that never returns).
pub struct MultiEngine {
    pub c02: bool,
}

fn v(class: &str, keys: &[(&str, &str)], obs: String) -> Violation {
    Violation::new("C20", class, keys, obs)
}

fn pick_index(len: usize, pick: i32) -> usize {
    if pick >= 0 {
        pick as usize % len
    } else {
        len - 1 - ((-(pick as i64) - 1) as usize % len)
    }
}

const CONNECT_TOKEN: &[u8] = b"\x10\x00\x00\x01TKEN\xff\xff\xff\xff";
const CONNECT_PLAIN: &[u8] = b"\x10\x00\x00\x01";

struct W<'c> {
    cfg: &'c MultiCfg,
    net: Net<u8>,
    cb: NetCb,
    shadows: BTreeMap<u8, Shadow>,
    remotes: Vec<Remote>,
    /// genuine close datagrams sent by the remote side of each address (RDisconnect)
    remote_closes: Vec<Vec<Vec<u8>>>,
    last_remote_out: Vec<Vec<u8>>,
    /// links[a][dir]
    links: Vec<[Vec<Vec<u8>>; 2]>,
    /// ids of peers that were disconnected by either side (or ignored)
    dead_pids: Vec<PeerId>,
    /// vital chunks the endpoint sent per address (all incarnations)
    vital_sent: Vec<u32>,
}

enum Outcome<T> {
    Ok(T),
    Stop(Option<Violation>),
}

impl<'c> W<'c> {
    /// Runs a Net call with panic capture; returns (result, datagrams grouped by address).
    fn net_call<R>(&mut self, ctx: &mut Ctx, addr: u8, f: impl FnOnce(&mut Net<u8>, &mut NetCb) -> R) -> Result<(R, Vec<(u8, Vec<u8>, bool)>), PanicInfo> {
        self.cb.cur_addr = addr;
        self.cb.calls = 0;
        self.cb.out.clear();
        let net = &mut self.net;
        let cb = &mut self.cb;
        let r = guard(move || f(net, cb));
        let _ = ctx;
        r.map(|x| (x, std::mem::take(&mut self.cb.out)))
    }

    /// Runs the same step on the shadow of `addr`.
    fn shadow_call<R>(&mut self, addr: u8, f: impl FnOnce(&mut libtw2_net::connection::Connection, &mut ShadowCb) -> R) -> Result<(R, Vec<(Vec<u8>, bool)>), PanicInfo> {
        let now = self.cb.now;
        let seed = self.cb.seed;
        let sh = self.shadows.get_mut(&addr).expect("shadow exists");
        let mut out = Vec::new();
        let r = {
            let mut scb = ShadowCb { now, out: &mut out, addr, draws: &mut sh.draws, fail_left: &mut sh.fail_left, seed };
            let conn = &mut sh.conn;
            guard(move || f(conn, &mut scb))
        };
        r.map(|x| (x, out))
    }

    /// Compares what Net sent with what the shadow of `addr` sent; forwards Net's datagrams to the links.
    fn compare_out(&mut self, ctx: &mut Ctx, what: &str, addr: Option<u8>, net_out: Vec<(u8, Vec<u8>, bool)>, shadow_out: Vec<(Vec<u8>, bool)>) -> Option<Violation> {
        let mut for_addr: Vec<(Vec<u8>, bool)> = Vec::new();
        for (a, d, ok) in net_out {
            if Some(a) == addr {
                for_addr.push((d.clone(), ok));
            } else {
                return Some(v("datagram-to-wrong-address", &[("call", what)], format!("{} concerning address {:?} made the endpoint send {} bytes to address {}", what, addr, d.len(), a)));
            }
            if ok && (a as usize) < NADDR {
                self.links[a as usize][1].push(d);
            }
        }
        ctx.oracle_event = true;
        if for_addr != shadow_out {
            return Some(v(
                "datagrams-differ-from-single-connection",
                &[("call", what)],
                format!("{} for address {:?}: the endpoint sent {:?} but an independent connection fed the same sub-history sends {:?}", what, addr, for_addr.iter().map(|(d, ok)| format!("{}{}", hexs(d), if *ok { "" } else { "(failed)" })).collect::<Vec<_>>(), shadow_out.iter().map(|(d, ok)| format!("{}{}", hexs(d), if *ok { "" } else { "(failed)" })).collect::<Vec<_>>()),
            ));
        }
        None
    }

    fn check_needs_tick(&mut self, what: &str) -> Option<Violation> {
        let got = self.net.needs_tick().to_opt().map(|t| t.as_usecs_since_epoch());
        let want = self.shadows.values().filter_map(|s| s.conn.needs_tick().to_opt().map(|t| t.as_usecs_since_epoch())).min();
        if got != want {
            let how = match (got, want) {
                (None, Some(_)) => "missing",
                (Some(g), Some(w)) if g > w => "later",
                _ => "earlier",
            };
            return Some(v("needs-tick-differs", &[("how", how)], format!("after {}: the endpoint reports deadline {:?} but the earliest deadline of the per-address connections is {:?}", what, got, want)));
        }
        None
    }

    /// "a peer is gone after it was disconnected by either side": the endpoint's own answer to
    /// "is a chunk of this peer still valid?" (what an event loop asks before handing a buffered chunk
    /// to the application) must be yes for every live peer and no for every removed one.
    fn check_liveness(&self) -> Option<Violation> {
        let probe = |pid: PeerId| {
            let mut c = ChunkOrEvent::Chunk(n::Chunk { pid, vital: false, data: &[] });
            self.net.is_receive_chunk_still_valid(&mut c)
        };
        for (a, s) in &self.shadows {
            if s.pid != PeerId(u32::MAX) && !probe(s.pid) {
                return Some(v("live-peer-reported-gone", &[], format!("peer {:?} of address {} is live but the endpoint says its chunks are no longer valid", s.pid, a)));
            }
        }
        for &pid in &self.dead_pids {
            if pid != PeerId(u32::MAX) && !self.shadows.values().any(|s| s.pid == pid) && probe(pid) {
                return Some(v("peer-still-present-after-disconnect", &[], format!("peer {:?} was disconnected but the endpoint still knows it", pid)));
            }
        }
        None
    }

    fn check_pids(&self) -> Option<Violation> {
        let mut seen = std::collections::BTreeSet::new();
        for (a, s) in &self.shadows {
            if !seen.insert(s.pid) {
                return Some(v("duplicate-peer-id", &[], format!("peer id {:?} of address {} is also the id of another live peer", s.pid, a)));
            }
        }
        None
    }
}

fn hexs(b: &[u8]) -> String {
    let mut s = String::new();
    for (i, x) in b.iter().enumerate() {
        if i >= 16 {
            s.push_str(&format!("..+{}", b.len() - i));
            break;
        }
        s.push_str(&format!("{:02x}", x));
    }
    s
}

fn reason(seed: u64, len: u8, salt: u64) -> Vec<u8> {
    let mut r = Prng::new(mix(seed, salt, 0x72656173));
    (0..len.min(127)).map(|_| 1 + r.below(255) as u8).collect()
}

fn pl(seed: u64, tag: u32, len: usize) -> Vec<u8> {
    let mut r = Prng::new(mix(seed, tag as u64, 0x706c));
    let mut d = r.bytes(len);
    if len >= 4 {
        d[..4].copy_from_slice(&tag.to_le_bytes());
    }
    d
}

impl Engine for MultiEngine {
    type Cfg = MultiCfg;
    type Op = MultiOp;
    fn engine_name(&self) -> &'static str {
        "multi"
    }
    fn property(&self) -> &'static str {
        "C20"
    }
    fn budget(&self) -> (u64, u64) {
        (120_000, 300)
    }

    fn generate(&self, seed: u64, _tier: Tier) -> Case<MultiCfg, MultiOp> {
        let mut c = Prng::stream(seed, 1);
        let mut s = Prng::stream(seed, 2);
        let accepting = c.chance(3, 4);
        let fault_free = c.chance(1, 6);
        let loss = if !fault_free && c.chance(1, 2) { c.range(10, 150) } else { 0 };
        let dup = if !fault_free && c.chance(1, 2) { c.range(10, 150) } else { 0 };
        let reorder = if !fault_free && c.chance(1, 2) { c.range(50, 400) } else { 0 };
        // mostly a handful of peers; sometimes many (collections behave differently beyond small sizes)
        let naddr = match c.below(8) { 0 => c.range(9, 16), 1 => c.range(5, 8), _ => c.range(1, 4) } as u8;
        // a crowd: more live peers than any small fixed-size scratch list, brought online together so that
        // their timers fall due in the same tick
        let crowd = c.chance(1, 14);
        let naddr = if crowd { c.range(17, NADDR as u64) as u8 } else { naddr };
        let n_target = match c.below(10) {
            0..=4 => c.range(30, 120),
            5..=8 => c.range(120, 400),
            _ => c.range(400, 1200),
        } as usize;
        let mut ops: Vec<MultiOp> = Vec::new();
        let mut tag = 0u32;
        let pk = |s: &mut Prng| if reorder > 0 && s.chance(reorder, 1000) { s.below(6) as i32 - 3 } else { 0 };
        if crowd {
            let by_net = !accepting || s.chance(1, 4);
            for a in 0..naddr {
                if by_net {
                    // the endpoint connects out to every address
                    ops.push(MultiOp::Connect { a });
                    for _ in 0..2 {
                        ops.push(MultiOp::Deliver { a, dir: 1, pick: 0 });
                        ops.push(MultiOp::Deliver { a, dir: 0, pick: 0 });
                    }
                } else {
                    ops.push(MultiOp::RConnect { a, token: s.chance(2, 3) });
                    ops.push(MultiOp::Deliver { a, dir: 0, pick: 0 });
                    ops.push(MultiOp::Accept { a });
                    ops.push(MultiOp::Deliver { a, dir: 1, pick: 0 });
                    ops.push(MultiOp::Deliver { a, dir: 0, pick: 0 });
                    tag += 1;
                    ops.push(MultiOp::RSend { a, vital: true, len: 8, tag });
                    ops.push(MultiOp::RFlush { a });
                    ops.push(MultiOp::Deliver { a, dir: 0, pick: 0 });
                }
                if s.chance(1, 3) {
                    tag += 1;
                    ops.push(MultiOp::Send { a, vital: s.chance(1, 2), len: 8, tag });
                }
            }
            ops.push(MultiOp::Advance { usec: *s.pick(&[500_000u64, 600_000, 1_100_000, 5_000_000]) });
            ops.push(MultiOp::Tick);
        }
        // a long-lived peer: the endpoint sends vital chunks up to (just around) a multiple of the 10-bit
        // sequence space, acknowledged in batches, then falls silent so that the last acknowledgement arrives
        // in a bare keep-alive; other peers come and go around it in the random phase that follows
        let long_lived = !crowd && accepting && c.chance(1, 40);
        if long_lived {
            let a = 0u8;
            ops.push(MultiOp::RConnect { a, token: s.chance(1, 2) });
            ops.push(MultiOp::Deliver { a, dir: 0, pick: 0 });
            ops.push(MultiOp::Accept { a });
            ops.push(MultiOp::Deliver { a, dir: 1, pick: 0 });
            ops.push(MultiOp::Deliver { a, dir: 0, pick: 0 });
            tag += 1;
            ops.push(MultiOp::RSend { a, vital: true, len: 8, tag });
            ops.push(MultiOp::RFlush { a });
            ops.push(MultiOp::Deliver { a, dir: 0, pick: 0 });
            let target = 1024 * s.range(1, 2) as i64 + *s.pick(&[-1i64, 0, 0, 0, 1]);
            let batch = *s.pick(&[8i64, 16, 32]);
            for k in 0..target {
                tag += 1;
                ops.push(MultiOp::Send { a, vital: true, len: *s.pick(&[0u16, 1, 1, 2]), tag });
                if (k + 1) % batch == 0 || k + 1 == target {
                    ops.push(MultiOp::Flush { a });
                    ops.push(MultiOp::Deliver { a, dir: 1, pick: 0 });
                    ops.push(MultiOp::Deliver { a, dir: 1, pick: 0 });
                    if k + 1 < target {
                        // the remote acknowledges with its next (non-vital) datagram
                        tag += 1;
                        ops.push(MultiOp::RSend { a, vital: false, len: 1, tag });
                        ops.push(MultiOp::RFlush { a });
                        ops.push(MultiOp::Deliver { a, dir: 0, pick: 0 });
                    }
                }
            }
            // silence: the remote's keep-alive carries the last acknowledgement
            ops.push(MultiOp::RAdvance { a, usec: 600_000 });
            ops.push(MultiOp::RTick { a });
            ops.push(MultiOp::Deliver { a, dir: 0, pick: 0 });
            for _ in 0..3 {
                ops.push(MultiOp::Advance { usec: 1_100_000 });
                ops.push(MultiOp::Tick);
                ops.push(MultiOp::Deliver { a, dir: 1, pick: 0 });
            }
        }
        let n_target = ops.len() + n_target;
        while ops.len() < n_target {
            let a = s.below(naddr as u64) as u8;
            tag += 1;
            match s.weighted(&[8, 6, 10, 3, 2, 2, 2, 14, 6, 1, 6, 6, 1, 10, 6, 4, 2, 3, 26, 0, 0]) {
                0 => {
                    ops.push(MultiOp::RConnect { a, token: s.chance(2, 3) });
                    ops.push(MultiOp::Deliver { a, dir: 0, pick: 0 });
                }
                1 => ops.push(MultiOp::Connect { a }),
                2 => {
                    ops.push(MultiOp::Accept { a });
                    ops.push(MultiOp::Deliver { a, dir: 1, pick: 0 });
                    ops.push(MultiOp::Deliver { a, dir: 0, pick: 0 });
                }
                3 => ops.push(MultiOp::Reject { a, reason_len: *s.pick(&[0u8, 3, 20, 127]) }),
                4 => ops.push(MultiOp::Disconnect { a, reason_len: *s.pick(&[0u8, 3, 20, 127]) }),
                5 => ops.push(MultiOp::Ignore { a }),
                6 => ops.push(MultiOp::RDisconnect { a }),
                7 => {
                    ops.push(MultiOp::Send { a, vital: s.chance(2, 3), len: *s.pick(&[0u16, 1, 8, 40, 300, 1000, 1023, 1024, 1390, 1391, 3000]), tag });
                    if s.chance(3, 4) {
                        ops.push(MultiOp::Flush { a });
                    }
                }
                8 => ops.push(MultiOp::Flush { a }),
                9 => ops.push(MultiOp::SendConnless { a, len: if s.chance(1, 3) { *s.pick(&[1000u16, 1393, 1394, 1395, 1400, 2000, 65535]) } else { s.range(0, 60) as u16 }, tag }),
                10 => ops.push(MultiOp::Tick),
                11 => {
                    ops.push(MultiOp::Advance { usec: *s.pick(&[10_000u64, 250_000, 500_000, 600_000, 1_000_000, 1_100_000, 5_000_000]) });
                    ops.push(MultiOp::Tick);
                }
                12 => ops.push(MultiOp::SendErr { a, n: 1 + s.below(2) as u8 }),
                13 => {
                    ops.push(MultiOp::RSend { a, vital: s.chance(2, 3), len: *s.pick(&[0u16, 1, 8, 40, 300, 1000, 1023, 1024, 1390, 1391, 3000]), tag });
                    ops.push(MultiOp::RFlush { a });
                    ops.push(MultiOp::Deliver { a, dir: 0, pick: pk(&mut s) });
                }
                14 => ops.push(MultiOp::RFlush { a }),
                15 => {
                    ops.push(MultiOp::RAdvance { a, usec: *s.pick(&[250_000u64, 600_000, 1_100_000]) });
                    ops.push(MultiOp::RTick { a });
                }
                16 => ops.push(MultiOp::RTick { a }),
                17 => {
                    ops.push(MultiOp::Garbage { a, kind: s.below(12) as u8, salt: s.next_u64() });
                    ops.push(MultiOp::Deliver { a, dir: 0, pick: -1 });
                }
                _ => {
                    let dir = s.below(2) as u8;
                    ops.push(MultiOp::Deliver { a, dir, pick: pk(&mut s) });
                }
            }
            if loss > 0 && s.chance(loss, 1000) {
                ops.push(MultiOp::Drop { a: s.below(naddr as u64) as u8, dir: s.below(2) as u8, pick: -1 });
            }
            if dup > 0 && s.chance(dup, 1000) {
                ops.push(MultiOp::Dup { a: s.below(naddr as u64) as u8, dir: s.below(2) as u8, pick: -1 });
            }
        }
        Case { cfg: MultiCfg { seed: c.next_u64(), accepting }, ops }
    }

    fn execute(&self, case: &Case<MultiCfg, MultiOp>, ctx: &mut Ctx) -> Option<Violation> {
        let cfg = &case.cfg;
        let mut w = W {
            cfg,
            net: if cfg.accepting { Net::server() } else { Net::client() },
            cb: NetCb { now: 1_000_000, out: Vec::new(), cur_addr: 0, draws: [0; NADDR], sends: [0; NADDR], fail_left: [0; NADDR], seed: cfg.seed, calls: 0 },
            shadows: BTreeMap::new(),
            remotes: (0..NADDR).map(|i| Remote { conn: None, cb: SimCb::new(Prng::stream(cfg.seed, 100 + i as u64), 0, 0), may_send: false, closed: false }).collect(),
            remote_closes: (0..NADDR).map(|_| Vec::new()).collect(),
            last_remote_out: Vec::new(),
            links: (0..NADDR).map(|_| [Vec::new(), Vec::new()]).collect(),
            dead_pids: Vec::new(),
            vital_sent: vec![0; NADDR],
        };
        let mut crowd_seen = false;
        for op in &case.ops {
            ctx.ops_executed += 1;
            match self.step(&mut w, ctx, op) {
                Outcome::Ok(()) => {}
                Outcome::Stop(v) => {
                    if !self.c02 {
                        return v;
                    }
                    // C02 mode: only deadline / termination observations of the multi-peer endpoint count
                    if let Some(a) = &ctx.aborted_other {
                        if a.starts_with("C02 budget") {
                            ctx.aborted_other = None;
                            return Some(Violation::new("C02", "unbounded-loop", &[("layer", "net")], "a call into the multi-peer endpoint never returned (callback budget exceeded)".into()));
                        }
                    }
                    return match v {
                        Some(x) if x.sig.get("class").map(|c| c == "needs-tick-differs").unwrap_or(false) && x.sig.get("how").map(|h| h != "earlier").unwrap_or(false) => {
                            Some(Violation::new("C02", "no-deadline", &[("layer", "net"), ("how", x.sig.get("how").map(|s| s.as_str()).unwrap_or(""))], format!("multi-peer endpoint: {}", x.observation)))
                        }
                        Some(x) => {
                            ctx.aborted_other = Some(format!("C20 {:?}", x.sig));
                            None
                        }
                        None => None,
                    };
                }
            }
            if let Some(v) = w.check_pids() {
                return Some(v);
            }
            if !self.c02 {
                if let Some(v) = w.check_liveness() {
                    return Some(v);
                }
            }
            if w.shadows.len() >= 17 && !crowd_seen {
                crowd_seen = true;
                ctx.count("probe_seventeen_live_peers");
            }
            let st = (w.shadows.len() as u64) << 16 | w.shadows.values().fold(0u64, |h, s| h.wrapping_mul(5).wrapping_add(match s.conn.verif_state_name() { "Unconnected" => 0, "Connecting" => 1, "Pending" => 2, "Online" => 3, _ => 4 }));
            ctx.state(st);
            ctx.t(st);
        }
        None
    }

    fn simplify_op(&self, op: &MultiOp) -> Vec<MultiOp> {
        let mut v = Vec::new();
        match *op {
            MultiOp::Send { a, vital, len, tag } if len > 0 => v.push(MultiOp::Send { a, vital, len: 0, tag }),
            MultiOp::RSend { a, vital, len, tag } if len > 0 => v.push(MultiOp::RSend { a, vital, len: 0, tag }),
            MultiOp::Deliver { a, dir, pick } if pick != 0 => v.push(MultiOp::Deliver { a, dir, pick: 0 }),
            MultiOp::Reject { a, reason_len } if reason_len > 0 => v.push(MultiOp::Reject { a, reason_len: 0 }),
            MultiOp::Disconnect { a, reason_len } if reason_len > 0 => v.push(MultiOp::Disconnect { a, reason_len: 0 }),
            _ => {}
        }
        v
    }

    fn info(&self) -> EngineInfo {
        EngineInfo {
            rule: "one run = an interleaving of datagrams from 1 to 40 addresses (usually a handful; 1 run in 14 a crowd of 17-40 peers brought online together) (real remote Connections behind lossy links, plus garbage), application calls (connect/accept/reject/send/flush/disconnect/ignore/connless) and ticks on one real Net (accepting or not). After every call, events, datagrams (with destination address) and needs_tick() are compared with per-address shadow Connections driven by the projected sub-history (same clock, per-address randomness and send failures). Non-trivial = a link fault fired in flight AND at least one comparison was made; distinct = distinct trace hash.".into(),
            assumptions: vec![
                "one live peer per address (the application does not connect twice to the same address)".into(),
                "accept() is only called while the pending peer is still unconnected (Net asserts it); a retransmitted connect that reaches the pending peer first makes accept impossible — reported as a probe, outside the listed properties".into(),
                "secure_random is a function of (address, draw index) so that Net and shadow draw identical tokens".into(),
            ],
            real: vec!["net::Net", "net::collections::PeerMap", "the Connections inside Net", "remote peers (net::connection::Connection)", "packet codec, Huffman"],
            stub: vec!["UDP socket (per-address simulated links)", "clock", "RNG"],
            required_probes: vec!["probe_peer_accepted", "probe_event_ready", "probe_event_chunk", "probe_event_disconnect", "probe_two_live_peers", "probe_unknown_addr_ignored", "probe_tick_sent", "probe_remote_close_delivered", "probe_nine_live_peers", "probe_seventeen_live_peers", "probe_noncanonical_connect", "probe_peer_sequence_wrapped"],
            fault_kinds: vec!["fault_loss", "fault_duplication", "fault_reorder", "fault_send_failure", "fault_garbage"],
        }
    }
}

impl MultiEngine {
    fn step(&self, w: &mut W, ctx: &mut Ctx, op: &MultiOp) -> Outcome<()> {
        let seed = w.cfg.seed;
        macro_rules! stop {
            ($v:expr) => {
                return Outcome::Stop($v)
            };
        }
        // Handles "Net panics iff the shadow panics".
        macro_rules! both {
            ($what:expr, $addr:expr, $nr:expr, $sr:expr) => {{
                match ($nr, $sr) {
                    (Ok(a), Ok(b)) => (a, b),
                    (Err(p), Err(_)) => {
                        // both panic: the panic itself is C04's business
                        ctx.aborted_other = Some(format!("C04 panic in both Net and single connection during {}: {}", $what, p.msg));
                        stop!(None)
                    }
                    (Err(p), Ok(_)) => {
                        if p.is_budget() {
                            ctx.aborted_other = Some(format!("C02 budget in Net during {}", $what));
                            stop!(None)
                        }
                        stop!(Some(v("endpoint-panics-single-connection-does-not", &[("call", $what), ("message", &p.msg_class()), ("file", &p.file_class())], format!("{} for address {} panicked in the multi-peer endpoint ({} at {}:{}) but not in an independent connection", $what, $addr, p.msg, p.file, p.line))))
                    }
                    (Ok(_), Err(p)) => stop!(Some(v("single-connection-panics-endpoint-does-not", &[("call", $what)], format!("{} for address {}: independent connection panicked ({}) but the endpoint did not", $what, $addr, p.msg)))),
                }
            }};
        }
        match *op {
            MultiOp::Advance { usec } => {
                ctx.t(1);
                w.cb.now += usec.min(60_000_000);
                ctx.sim_usec += usec.min(60_000_000);
            }
            MultiOp::SendErr { a, n } => {
                ctx.t(2);
                let a = a as usize % NADDR;
                // only meaningful for live peers (both sides must fail identically)
                if let Some(sh) = w.shadows.get_mut(&(a as u8)) {
                    sh.fail_left = n;
                    w.cb.fail_left[a] = n;
                    ctx.count("fault_send_failure");
                } else {
                    w.cb.fail_left[a] = 0;
                }
            }
            MultiOp::Connect { a } => {
                ctx.t(3);
                let a = a % NADDR as u8;
                if w.shadows.contains_key(&a) {
                    return Outcome::Ok(());
                }
                ctx.logf(|| format!("net.connect({})", a));
                w.cb.fail_left[a as usize] = 0;
                let nr = w.net_call(ctx, a, |net, cb| net.connect(cb, a));
                w.shadows.insert(a, Shadow { conn: libtw2_net::connection::Connection::new(), pid: PeerId(u32::MAX), draws: w.cb.draws[a as usize], fail_left: 0, connect_token: None });
                let sr = w.shadow_call(a, |c, cb| c.connect(cb));
                let (((pid, nres), nout), (sres, sout)) = both!("connect", a, nr, sr);
                w.shadows.get_mut(&a).unwrap().pid = pid;
                if nres.is_err() != sres.is_err() {
                    stop!(Some(v("result-differs", &[("call", "connect")], format!("connect({}) returned {:?} but the single connection {:?}", a, nres, sres))));
                }
                if let Some(x) = w.compare_out(ctx, "connect", Some(a), nout, sout) {
                    stop!(Some(x));
                }
                ctx.count("probe_net_connect");
            }
            MultiOp::Accept { a } => {
                ctx.t(4);
                let a = a % NADDR as u8;
                let (pid, tok) = match w.shadows.get(&a) {
                    Some(s) if s.connect_token.is_some() => (s.pid, s.connect_token.unwrap()),
                    _ => return Outcome::Ok(()),
                };
                if !w.shadows[&a].conn.is_unconnected() {
                    ctx.count("probe_accept_impossible_after_retransmitted_connect");
                    return Outcome::Ok(());
                }
                ctx.logf(|| format!("net.accept({:?}) [address {}]", pid, a));
                let nr = w.net_call(ctx, a, |net, cb| net.accept(cb, pid));
                let sr = w.shadow_call(a, |c, cb| {
                    let mut buf: ArrayVec<[u8; 2048]> = ArrayVec::new();
                    let mut warn: Vec<libtw2_net::connection::Warning> = Vec::new();
                    let (it, res) = c.feed(cb, &mut warn, if tok { CONNECT_TOKEN } else { CONNECT_PLAIN }, &mut buf);
                    (it.count(), res)
                });
                let ((nres, nout), ((nev, sres), sout)) = both!("accept", a, nr, sr);
                if nres.is_err() != sres.is_err() || nev != 0 {
                    stop!(Some(v("result-differs", &[("call", "accept")], format!("accept for address {}: {:?} vs {:?}", a, nres, sres))));
                }
                if let Some(x) = w.compare_out(ctx, "accept", Some(a), nout, sout) {
                    stop!(Some(x));
                }
                ctx.count("probe_peer_accepted");
            }
            MultiOp::Reject { a, reason_len } | MultiOp::Disconnect { a, reason_len } => {
                let is_reject = matches!(op, MultiOp::Reject { .. });
                ctx.t(5 + is_reject as u64);
                let a = a % NADDR as u8;
                let pid = match w.shadows.get(&a) {
                    Some(s) => s.pid,
                    None => return Outcome::Ok(()),
                };
                let unconnected = w.shadows[&a].conn.is_unconnected();
                // API preconditions (Net asserts them)
                if is_reject != unconnected {
                    return Outcome::Ok(());
                }
                let r = reason(seed, reason_len, a as u64);
                let what = if is_reject { "reject" } else { "disconnect" };
                ctx.logf(|| format!("net.{}({:?}) [address {}]", what, pid, a));
                let r2 = r.clone();
                let nr = w.net_call(ctx, a, |net, cb| if is_reject { net.reject(cb, pid, &r2) } else { net.disconnect(cb, pid, &r2) });
                let sr = w.shadow_call(a, |c, cb| c.disconnect(cb, &r));
                let ((nres, nout), (sres, sout)) = both!(what, a, nr, sr);
                if let Some(sh) = w.shadows.remove(&a) {
                    w.dead_pids.push(sh.pid);
                }
                w.cb.fail_left[a as usize] = 0;
                if nres.is_err() != sres.is_err() {
                    stop!(Some(v("result-differs", &[("call", what)], format!("{} for address {}: {:?} vs {:?}", what, a, nres, sres))));
                }
                if let Some(x) = w.compare_out(ctx, what, Some(a), nout, sout) {
                    stop!(Some(x));
                }
                ctx.count(if is_reject { "probe_peer_rejected" } else { "probe_peer_disconnected_by_app" });
            }
            MultiOp::Ignore { a } => {
                ctx.t(7);
                let a = a % NADDR as u8;
                let pid = match w.shadows.get(&a) {
                    Some(s) => s.pid,
                    None => return Outcome::Ok(()),
                };
                ctx.logf(|| format!("net.ignore({:?}) [address {}]", pid, a));
                match w.net_call(ctx, a, |net, _| net.ignore(pid)) {
                    Ok((_, out)) => {
                        if !out.is_empty() {
                            stop!(Some(v("datagram-to-wrong-address", &[("call", "ignore")], "ignore() sent datagrams".into())));
                        }
                    }
                    Err(p) => stop!(Some(v("endpoint-panics-single-connection-does-not", &[("call", "ignore"), ("message", &p.msg_class()), ("file", &p.file_class())], format!("ignore panicked: {}", p.msg)))),
                }
                if let Some(sh) = w.shadows.remove(&a) {
                    w.dead_pids.push(sh.pid);
                }
                w.cb.fail_left[a as usize] = 0;
            }
            MultiOp::Send { a, vital, len, tag } => {
                ctx.t(8);
                let a = a % NADDR as u8;
                let pid = match w.shadows.get(&a) {
                    Some(s) if s.conn.verif_state_name() == "Online" => s.pid,
                    _ => return Outcome::Ok(()),
                };
                let data = pl(seed, tag, len as usize);
                let d2 = data.clone();
                ctx.logf(|| format!("net.send({:?}, vital={}, {} bytes) [address {}]", pid, vital, data.len(), a));
                let nr = w.net_call(ctx, a, |net, cb| net.send(cb, n::Chunk { pid, vital, data: &d2 }).map_err(|e| format!("{:?}", e)));
                let sr = w.shadow_call(a, |c, cb| c.send(cb, &data, vital).map_err(|e| format!("{:?}", e)));
                let ((nres, nout), (sres, sout)) = both!("send", a, nr, sr);
                if nres != sres {
                    stop!(Some(v("result-differs", &[("call", "send")], format!("send for address {}: {:?} vs {:?}", a, nres, sres))));
                }
                if let Some(x) = w.compare_out(ctx, "send", Some(a), nout, sout) {
                    stop!(Some(x));
                }
                if vital {
                    w.vital_sent[a as usize] += 1;
                    if w.vital_sent[a as usize] == 1024 {
                        ctx.count("probe_peer_sequence_wrapped");
                    }
                }
            }
            MultiOp::Flush { a } => {
                ctx.t(9);
                let a = a % NADDR as u8;
                let pid = match w.shadows.get(&a) {
                    Some(s) if s.conn.verif_state_name() == "Online" => s.pid,
                    _ => return Outcome::Ok(()),
                };
                ctx.logf(|| format!("net.flush({:?}) [address {}]", pid, a));
                let nr = w.net_call(ctx, a, |net, cb| net.flush(cb, pid));
                let sr = w.shadow_call(a, |c, cb| c.flush(cb));
                let ((nres, nout), (sres, sout)) = both!("flush", a, nr, sr);
                if nres.is_err() != sres.is_err() {
                    stop!(Some(v("result-differs", &[("call", "flush")], format!("flush for address {}: {:?} vs {:?}", a, nres, sres))));
                }
                if let Some(x) = w.compare_out(ctx, "flush", Some(a), nout, sout) {
                    stop!(Some(x));
                }
            }
            MultiOp::SendConnless { a, len, tag } => {
                ctx.t(10);
                let a = a % NADDR as u8;
                let data = pl(seed, tag, len as usize);
                let saved = w.cb.fail_left[a as usize];
                w.cb.fail_left[a as usize] = 0;
                // expectation from the wire format (6 bytes 0xff + payload, datagrams of at most 1400 bytes):
                // Ok means exactly that datagram went to `a`; an error means nothing was sent; payloads up to
                // 1000 bytes must be accepted, payloads that cannot fit a datagram must be refused
                match w.net_call(ctx, a, |net, cb| net.send_connless(cb, a, &data).is_ok()) {
                    Ok((ok, out)) => {
                        ctx.oracle_event = true;
                        let mut want = vec![0xffu8; 6];
                        want.extend_from_slice(&data);
                        let good = if ok { out.len() == 1 && out[0].1 == want } else { out.is_empty() };
                        if !good || (!ok && data.len() <= 1000) || (ok && data.len() > 1394) {
                            stop!(Some(v("datagrams-differ-from-single-connection", &[("call", "send_connless")], format!("send_connless of {} bytes to address {}: ok={} and {} datagram(s) sent ({})", data.len(), a, ok, out.len(), out.first().map(|o| hexs(&o.1)).unwrap_or_default()))));
                        }
                        if !ok {
                            ctx.count("probe_connless_refused");
                        }
                        for (to, d, _) in &out {
                            if *to != a {
                                stop!(Some(v("datagram-to-wrong-address", &[("call", "send_connless")], format!("send_connless({}) sent {} bytes to address {}", a, d.len(), to))));
                            }
                            w.links[a as usize][1].push(d.clone());
                        }
                    }
                    Err(p) => {
                        if p.is_budget() {
                            ctx.aborted_other = Some("C02 budget in Net during send_connless".into());
                            stop!(None)
                        }
                        stop!(Some(v("endpoint-panics-single-connection-does-not", &[("call", "send_connless"), ("message", &p.msg_class()), ("file", &p.file_class())], format!("send_connless of {} bytes to address {} panicked in the multi-peer endpoint: {} at {}:{}", data.len(), a, p.msg, p.file, p.line))))
                    }
                }
                w.cb.fail_left[a as usize] = saved;
            }
            MultiOp::Tick => {
                ctx.t(11);
                ctx.logf(|| format!("net.tick() at t={}", w.cb.now));
                let nr = w.net_call(ctx, 0, |net, cb| net.tick(cb).count());
                let (nerrs, nout) = match nr {
                    Ok(x) => x,
                    Err(p) => {
                        // find out whether a single connection panics as well
                        let addrs: Vec<u8> = w.shadows.keys().copied().collect();
                        for a in addrs {
                            if w.shadow_call(a, |c, cb| c.tick(cb)).is_err() {
                                ctx.aborted_other = Some(format!("C04/C02 panic in tick of both: {}", p.msg));
                                stop!(None)
                            }
                        }
                        stop!(Some(v("endpoint-panics-single-connection-does-not", &[("call", "tick"), ("message", &p.msg_class()), ("file", &p.file_class())], format!("tick panicked in the endpoint ({}) but no single connection panics", p.msg))))
                    }
                };
                let mut by_addr: BTreeMap<u8, Vec<(u8, Vec<u8>, bool)>> = BTreeMap::new();
                for o in nout {
                    by_addr.entry(o.0).or_default().push(o);
                }
                let addrs: Vec<u8> = w.shadows.keys().copied().collect();
                let mut serrs = 0usize;
                for a in addrs {
                    let (sres, sout) = match w.shadow_call(a, |c, cb| c.tick(cb)) {
                        Ok(x) => x,
                        Err(p) => stop!(Some(v("single-connection-panics-endpoint-does-not", &[("call", "tick")], format!("tick: single connection of address {} panicked ({})", a, p.msg)))),
                    };
                    if sres.is_err() {
                        serrs += 1;
                    }
                    let nout_a = by_addr.remove(&a).unwrap_or_default();
                    if !nout_a.is_empty() {
                        ctx.count("probe_tick_sent");
                    }
                    if let Some(x) = w.compare_out(ctx, "tick", Some(a), nout_a, sout) {
                        stop!(Some(x));
                    }
                }
                if let Some((a, o)) = by_addr.into_iter().next() {
                    stop!(Some(v("datagram-to-wrong-address", &[("call", "tick")], format!("tick sent {} datagram(s) to address {} which has no live peer", o.len(), a))));
                }
                if nerrs != serrs {
                    stop!(Some(v("result-differs", &[("call", "tick")], format!("tick reported {} errors, single connections {}", nerrs, serrs))));
                }
            }
            // ---------------- remote side
            MultiOp::RConnect { a, token } => {
                ctx.t(12);
                let a = a as usize % NADDR;
                let r = &mut w.remotes[a];
                if r.conn.is_some() && !r.closed {
                    return Outcome::Ok(());
                }
                r.conn = Some(AnyConn::new(Proto::V6Token));
                r.closed = false;
                r.may_send = false;
                r.cb.out.clear();
                let res = {
                    let conn = r.conn.as_mut().unwrap();
                    let cb = &mut r.cb;
                    guard(move || conn.connect(cb))
                };
                if res.is_err() {
                    ctx.aborted_other = Some("remote panicked".into());
                    stop!(None)
                }
                for (mut d, ok) in std::mem::take(&mut w.remotes[a].cb.out) {
                    if !token && d == CONNECT_TOKEN {
                        d.truncate(4);
                    }
                    if ok {
                        w.links[a][0].push(d);
                    }
                }
            }
            MultiOp::RSend { a, vital, len, tag } => {
                ctx.t(13);
                let a = a as usize % NADDR;
                let data = pl(seed, tag, len as usize);
                if let Err(x) = self.remote(w, ctx, a, |c, cb, r| {
                    if r {
                        let _ = c.send(cb, &data, vital);
                    }
                }) {
                    stop!(x);
                }
            }
            MultiOp::RFlush { a } => {
                ctx.t(14);
                if let Err(x) = self.remote(w, ctx, a as usize % NADDR, |c, cb, r| {
                    if r {
                        let _ = c.flush(cb);
                    }
                }) {
                    stop!(x);
                }
            }
            MultiOp::RTick { a } => {
                ctx.t(15);
                if let Err(x) = self.remote(w, ctx, a as usize % NADDR, |c, cb, _| {
                    let _ = c.tick(cb);
                }) {
                    stop!(x);
                }
            }
            MultiOp::RAdvance { a, usec } => {
                ctx.t(16);
                w.remotes[a as usize % NADDR].cb.now += usec.min(60_000_000);
            }
            MultiOp::RDisconnect { a } => {
                ctx.t(17);
                let a = a as usize % NADDR;
                if w.remotes[a].conn.is_none() || w.remotes[a].closed {
                    return Outcome::Ok(());
                }
                if let Err(x) = self.remote(w, ctx, a, |c, cb, _| {
                    let _ = c.disconnect(cb, b"remote bye");
                }) {
                    stop!(x);
                }
                let outs = w.last_remote_out.clone();
                w.remote_closes[a].extend(outs);
                w.remotes[a].closed = true;
            }
            MultiOp::Garbage { a, kind, salt } => {
                ctx.t(18);
                let a = a as usize % NADDR;
                let mut r = Prng::new(mix(seed, salt, 0x67617262));
                let huff = |flags_ack: [u8; 3], body: &[u8]| -> Vec<u8> {
                    let mut d = flags_ack.to_vec();
                    d[0] |= 0x80;
                    d.extend_from_slice(&libtw2_huffman::instances::TEEWORLDS.compress_into_vec(body));
                    d
                };
                let d: Vec<u8> = match kind % 12 {
                    // equivalent encodings a different client implementation may choose: compressed control packets,
                    // a connect with other header bits (resend request, ack, chunk count) set
                    8 => huff([0x10, 0, 0], &CONNECT_TOKEN[3..]),
                    9 => huff([0x10, 0, 0], &CONNECT_PLAIN[3..]),
                    10 => {
                        let mut d = if r.chance(1, 2) { CONNECT_TOKEN.to_vec() } else { CONNECT_PLAIN.to_vec() };
                        d[0] |= *r.pick(&[0x40u8, 0x03, 0x43, 0x01]);
                        d[1] = r.below(256) as u8;
                        d[2] = r.below(3) as u8;
                        d
                    }
                    11 => huff([0x10 | *r.pick(&[0u8, 0x40, 0x03]), r.below(256) as u8, 0], &[*r.pick(&[0u8, 1, 2, 3, 4])]),
                    0 => r.bytes(r.clone().usize_below(40)),
                    1 => CONNECT_TOKEN.to_vec(),
                    2 => CONNECT_PLAIN.to_vec(),
                    3 => b"\x10\x00\x00\x04bye\x00".to_vec(),
                    4 => {
                        let mut d = vec![0xffu8; 6];
                        d.extend_from_slice(b"gie3");
                        d
                    }
                    5 => b"\x10\x00\x00\x00".to_vec(),
                    6 => b"\x00\x00\x01\x40\x01\x01\x42".to_vec(),
                    _ => {
                        let mut d = r.bytes(8);
                        d[0] = 0x10;
                        d[3] = r.below(6) as u8;
                        d
                    }
                };
                ctx.count("fault_garbage");
                w.links[a][0].push(d);
            }
            MultiOp::Drop { a, dir, pick } => {
                ctx.t(19);
                let l = &mut w.links[a as usize % NADDR][dir as usize % 2];
                if !l.is_empty() {
                    let i = pick_index(l.len(), pick);
                    l.remove(i);
                    ctx.count("fault_loss");
                    ctx.fault_inflight = true;
                }
            }
            MultiOp::Dup { a, dir, pick } => {
                ctx.t(20);
                let l = &mut w.links[a as usize % NADDR][dir as usize % 2];
                if !l.is_empty() && l.len() < 2000 {
                    let i = pick_index(l.len(), pick);
                    let c = l[i].clone();
                    l.push(c);
                    ctx.count("fault_duplication");
                    ctx.fault_inflight = true;
                }
            }
            MultiOp::Deliver { a, dir, pick } => {
                let a = a as usize % NADDR;
                let dir = dir as usize % 2;
                ctx.t(21 + dir as u64);
                if w.links[a][dir].is_empty() {
                    return Outcome::Ok(());
                }
                let i = pick_index(w.links[a][dir].len(), pick);
                if i != 0 {
                    ctx.count("fault_reorder");
                    ctx.fault_inflight = true;
                }
                let d = w.links[a][dir].remove(i);
                if dir == 1 {
                    // Net -> remote; a remote without a live connection acts as a fresh acceptor
                    if w.remotes[a].conn.is_none() || w.remotes[a].closed {
                        w.remotes[a].conn = Some(AnyConn::new(Proto::V6Token));
                        w.remotes[a].closed = false;
                        w.remotes[a].may_send = false;
                    }
                    match self.remote(w, ctx, a, |c, cb, _| {
                        let o = c.feed(cb, &d);
                        let mut mark = 0u8;
                        for e in o.events {
                            match e {
                                Ev::Ready | Ev::Chunk(..) => mark = mark.max(1),
                                Ev::Disconnect(_) => mark = 2,
                                _ => {}
                            }
                        }
                        mark
                    }) {
                        Err(x) => stop!(x),
                        Ok(Some(1)) => w.remotes[a].may_send = true,
                        Ok(Some(2)) => w.remotes[a].closed = true,
                        Ok(_) => {}
                    }
                    return Outcome::Ok(());
                }
                // remote -> Net
                let a8 = a as u8;
                ctx.logf(|| format!("net.feed(from address {}, {} bytes: {})", a, d.len(), hexs(&d)));
                let known = w.shadows.contains_key(&a8);
                let d2 = d.clone();
                let nr = w.net_call(ctx, a8, |net, cb| {
                    let mut buf: ArrayVec<[u8; 2048]> = ArrayVec::new();
                    let mut warn: Vec<n::Warning<u8>> = Vec::new();
                    let (it, res) = net.feed(cb, &mut warn, a8, &d2, &mut buf);
                    let evs: Vec<(Option<PeerId>, MEv)> = it
                        .map(|e| match e {
                            ChunkOrEvent::Chunk(c) => (Some(c.pid), MEv::Chunk(c.data.to_vec(), c.vital)),
                            ChunkOrEvent::Connless(c) => (c.pid, MEv::Connless(c.data.to_vec(), c.pid.is_some())),
                            ChunkOrEvent::Connect(p) => (Some(p), MEv::Connect),
                            ChunkOrEvent::Ready(p) => (Some(p), MEv::Ready),
                            ChunkOrEvent::Disconnect(p, r) => (Some(p), MEv::Disconnect(r.to_vec())),
                        })
                        .collect();
                    (evs, res.is_err())
                });
                if !known {
                    let ((evs, _), nout) = match nr {
                        Ok(x) => x,
                        Err(p) => stop!(Some(v("endpoint-panics-single-connection-does-not", &[("call", "feed-unknown-address"), ("message", &p.msg_class()), ("file", &p.file_class())], format!("feed of a datagram from an unknown address panicked: {}", p.msg)))),
                    };
                    ctx.oracle_event = true;
                    if !nout.is_empty() {
                        stop!(Some(v("unknown-address-triggered-send", &[], format!("a datagram from unknown address {} made the endpoint send {} datagram(s)", a, nout.len()))));
                    }
                    // a connect request by the wire format: control flag, not connectionless, control byte 1 —
                    // after Huffman decompression if the compression flag is set (the library accepts that, with a warning)
                    let connectish = d.len() >= 4 && d[0] & 0x30 == 0x10 && {
                        if d[0] & 0x80 != 0 {
                            libtw2_huffman::instances::TEEWORLDS.decompress_into_vec(&d[3..]).ok().and_then(|p| p.first().copied()) == Some(1)
                        } else {
                            d[3] == 1
                        }
                    };
                    let canonical = d == CONNECT_TOKEN || d == CONNECT_PLAIN;
                    // reference: would an independent, fresh connection take this datagram as a connect request?
                    let ref_accepts = {
                        let mut out = Vec::new();
                        let (mut draws, mut fail) = (0u32, 0u8);
                        let mut scb = ShadowCb { now: w.cb.now, out: &mut out, addr: a8, draws: &mut draws, fail_left: &mut fail, seed: w.cb.seed };
                        let mut c = libtw2_net::connection::Connection::new();
                        let dd = d.clone();
                        guard(move || {
                            let mut buf: ArrayVec<[u8; 2048]> = ArrayVec::new();
                            let mut warn: Vec<libtw2_net::connection::Warning> = Vec::new();
                            {
                                let (it, _) = c.feed(&mut scb, &mut warn, &dd, &mut buf);
                                for _ in it {}
                            }
                            c.verif_state_name() == "Pending"
                        })
                        .unwrap_or(false)
                    };
                    if ref_accepts && !canonical {
                        ctx.count("probe_noncanonical_connect");
                    }
                    let mut created = None;
                    for (pid, e) in &evs {
                        match e {
                            MEv::Connect => {
                                if !w.cfg.accepting || !connectish {
                                    stop!(Some(v("peer-created-for-non-connect", &[("accepting", if w.cfg.accepting { "yes" } else { "no" })], format!("datagram {} from unknown address {} created a pending peer (accepting={})", hexs(&d), a, w.cfg.accepting))));
                                }
                                created = *pid;
                            }
                            MEv::Connless(_, false) => {}
                            other => stop!(Some(v("event-for-unknown-address", &[], format!("datagram from unknown address {} produced {:?}", a, other)))),
                        }
                    }
                    if (canonical || ref_accepts) && w.cfg.accepting && created.is_none() {
                        stop!(Some(v("connect-not-announced", &[], format!("a connect request from unknown address {} produced no Connect event on an accepting endpoint", a))));
                    }
                    if let Some(pid) = created {
                        w.shadows.insert(a8, Shadow { conn: libtw2_net::connection::Connection::new(), pid, draws: w.cb.draws[a], fail_left: 0, connect_token: if d == CONNECT_TOKEN { Some(true) } else if d == CONNECT_PLAIN { Some(false) } else { None } });
                        w.cb.fail_left[a] = 0;
                        ctx.count("probe_peer_pending");
                        if w.shadows.len() >= 2 {
                            ctx.count("probe_two_live_peers");
                        }
                        if w.shadows.len() >= 9 {
                            ctx.count("probe_nine_live_peers");
                        }

                    } else {
                        ctx.count("probe_unknown_addr_ignored");
                    }
                } else {
                    let pid = w.shadows[&a8].pid;
                    let shadow_unconnected_before = w.shadows[&a8].conn.is_unconnected();
                    let shadow_token_before = w.shadows[&a8].conn.verif_expected_token();
                    let sr = w.shadow_call(a8, |c, cb| {
                        let mut buf: ArrayVec<[u8; 2048]> = ArrayVec::new();
                        let mut warn: Vec<libtw2_net::connection::Warning> = Vec::new();
                        let (it, res) = c.feed(cb, &mut warn, &d, &mut buf);
                        let evs: Vec<MEv> = it
                            .map(|e| match e {
                                libtw2_net::connection::ReceiveChunk::Connless(x) => MEv::Connless(x.to_vec(), true),
                                libtw2_net::connection::ReceiveChunk::Connected(x, vital) => MEv::Chunk(x.to_vec(), vital),
                                libtw2_net::connection::ReceiveChunk::Ready => MEv::Ready,
                                libtw2_net::connection::ReceiveChunk::Disconnect(r) => MEv::Disconnect(r.to_vec()),
                            })
                            .collect();
                        (evs, res.is_err())
                    });
                    let (((nevs, nerr), nout), ((sevs, serr), sout)) = both!("feed", a, nr, sr);
                    ctx.oracle_event = true;
                    if nevs.iter().any(|(p, _)| *p != Some(pid)) {
                        stop!(Some(v("event-for-wrong-peer", &[], format!("datagram from address {} (peer {:?}) produced events attributed to {:?}", a, pid, nevs.iter().map(|(p, _)| *p).collect::<Vec<_>>()))));
                    }
                    let nplain: Vec<MEv> = nevs.into_iter().map(|(_, e)| e).collect();
                    if nplain != sevs || nerr != serr {
                        stop!(Some(v("events-differ-from-single-connection", &[], format!("datagram from address {}: endpoint events {:?} (err {}) vs single connection {:?} (err {})", a, nplain, nerr, sevs, serr))));
                    }
                    for e in &sevs {
                        ctx.count(match e {
                            MEv::Ready => "probe_event_ready",
                            MEv::Chunk(..) => "probe_event_chunk",
                            MEv::Disconnect(_) => "probe_event_disconnect",
                            _ => "probe_event_other",
                        });
                    }
                    let gone = sevs.iter().any(|e| matches!(e, MEv::Disconnect(_)));
                    // independent of the shadow: "a peer is gone after it was disconnected by either side".
                    // A genuine close from the remote side must be honoured whenever it can be authenticated:
                    // the pending (unaccepted) peer expects no token; otherwise the close must carry the agreed token.
                    if w.remote_closes[a].iter().any(|c| *c == d) {
                        let authentic = shadow_unconnected_before || match shadow_token_before {
                            Some(Some(t)) => d.len() >= 8 && d[d.len() - 4..] == t,
                            Some(None) => true,
                            None => true,
                        };
                        if authentic && !nplain.iter().any(|e| matches!(e, MEv::Disconnect(_))) {
                            stop!(Some(v("remote-close-not-honoured", &[("state", if shadow_unconnected_before { "pending-accept" } else { "connected" })], format!("the remote side of address {} closed the connection (datagram {}) but the endpoint reported no Disconnect and keeps the peer", a, hexs(&d)))));
                        }
                        ctx.count("probe_remote_close_delivered");
                    }
                    if let Some(x) = w.compare_out(ctx, "feed", Some(a8), nout, sout) {
                        stop!(Some(x));
                    }
                    if gone {
                        if let Some(sh) = w.shadows.remove(&a8) {
                            w.dead_pids.push(sh.pid);
                        }
                        w.cb.fail_left[a] = 0;
                    }
                }
            }
        }
        if let Some(x) = w.check_needs_tick(match op {
            MultiOp::Tick => "tick",
            MultiOp::Deliver { .. } => "feed",
            _ => "call",
        }) {
            stop!(Some(x));
        }
        Outcome::Ok(())
    }

    /// One call on the remote endpoint of address `a`; its output goes onto the link towards the Net.
    fn remote<R>(&self, w: &mut W, ctx: &mut Ctx, a: usize, f: impl FnOnce(&mut AnyConn, &mut SimCb, bool) -> R) -> Result<Option<R>, Option<Violation>> {
        let r = &mut w.remotes[a];
        if r.conn.is_none() || r.closed {
            return Ok(None);
        }
        r.cb.calls = 0;
        r.cb.out.clear();
        let may = r.may_send && r.conn.as_ref().unwrap().state_name() == "Online";
        let res = {
            let conn = r.conn.as_mut().unwrap();
            let cb = &mut r.cb;
            guard(move || f(conn, cb, may))
        };
        let val = match res {
            Ok(v) => v,
            Err(p) => {
                ctx.aborted_other = Some(format!("remote endpoint panicked: {}", p.msg));
                return Err(None);
            }
        };
        w.last_remote_out.clear();
        for (d, ok) in std::mem::take(&mut w.remotes[a].cb.out) {
            if ok {
                w.last_remote_out.push(d.clone());
                w.links[a][0].push(d);
            }
        }
        Ok(Some(val))
    }
}
