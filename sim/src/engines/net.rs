//! Engine `net`: two real `Connection` objects joined by a simulated network.
//! Serves C01 (exactly-once, in order), C02 (progress / every call returns),
//! C03 (foreign datagrams are inert), C04 (well-formed egress, refusal).

use super::netconn::*;
use crate::core::*;
use crate::prng::{fnv1a, mix, Prng};
use arrayvec::ArrayVec;
use libtw2_huffman::instances::TEEWORLDS as HUFFMAN;
use libtw2_net::protocol as p6;
use libtw2_net::protocol7 as p7;
use serde::{Deserialize, Serialize};
use std::collections::BTreeMap;

#[derive(Clone, Copy, Debug, PartialEq, Eq)]
pub enum NetProp {
    C01,
    C02,
    C03,
    C04,
}

impl NetProp {
    pub fn id(self) -> &'static str {
        match self {
            NetProp::C01 => "C01",
            NetProp::C02 => "C02",
            NetProp::C03 => "C03",
            NetProp::C04 => "C04",
        }
    }
}

#[derive(Clone, Debug, Serialize, Deserialize)]
pub struct NetCfg {
    pub proto: Proto,
    /// seed of payload contents, secure_random streams, fair-suffix latencies, adversary
    pub seed: u64,
    /// app stops submitting vital chunks while this many are unacknowledged
    pub window: u32,
    /// a datagram is discarded by the network once either side submitted this many more vital chunks
    pub age: u32,
    /// first n draws of secure_random of (A, B) return a reserved pattern
    pub weak_rng: [u8; 2],
    /// informational: profile names chosen by the generator
    pub profile: String,
    /// 0.6+token only: the acceptor is replaced by `Connection::new_accept_token` when the client's Accept arrives
    /// (stateless anti-spoofing accept, as in the repository's establish_connection_anti_ip_addr_spoofing test)
    #[serde(default)]
    pub stateless_accept: bool,
    /// 0.6+token, C03 only: the acceptor is seen by the client as one that hands out a reserved token value
    /// (1: 00 00 00 00, 2: ff ff ff ff): a translating middlebox rewrites the token at the end of every datagram in
    /// both directions, so the session works while the token the CLIENT has agreed on is a placeholder value
    #[serde(default)]
    pub alien_token: u8,
}

/// `ep`: 0 = A (connecting side), 1 = B (accepting side), 2 = both (Advance only).
/// `dir`: 0 = A->B, 1 = B->A. `pick` >= 0 counts from the oldest in-flight
/// datagram, < 0 from the newest; always taken modulo what is in flight.
#[derive(Clone, Debug, Serialize, Deserialize, PartialEq)]
#[serde(tag = "op")]
pub enum NetOp {
    Connect,
    Send { ep: u8, vital: bool, len: u32, fill: u8, tag: u32 },
    Flush { ep: u8 },
    Tick { ep: u8 },
    Advance { ep: u8, usec: u64 },
    Deliver { dir: u8, pick: i32 },
    Drop { dir: u8, pick: i32 },
    Dup { dir: u8, pick: i32 },
    SendErr { ep: u8, n: u8 },
    Disconnect { ep: u8, reason_len: u8, tag: u32 },
    SendConnless { ep: u8, len: u32, tag: u32 },
    Inject { ep: u8, kind: u8, salt: u64 },
    FairSuffix { latency: u8 },
    /// both applications end the session (disconnect unless already disconnected), the network
    /// forgets everything in flight, both `Connection`s are `reset()` and the model starts over;
    /// a following `Connect` opens the next session on the same objects.
    /// `soft`: an acceptor whose application has seen nothing yet (still unconnected or only
    /// asked for a token) is left as it is — only the connecting side gives up and tries again
    Restart {
        #[serde(default)]
        soft: bool,
    },
    /// the network delivers one more copy of a datagram it has already delivered some time ago
    /// (a duplicate that was delayed for long, still within the age bound); `pick` as for Deliver
    Redeliver { dir: u8, pick: i32 },
    /// C04 only: a datagram that DOES carry the token the endpoint expects (on-path forger,
    /// reflected or mangled traffic): feeding it is a valid call, so it must not panic and
    /// whatever the endpoint sends in response must be well-formed
    Forge { ep: u8, kind: u8, salt: u64 },
}

pub struct Dgram {
    pub bytes: Vec<u8>,
    /// vital chunks submitted by (A, B) when this datagram was sent
    pub sent_at: [u64; 2],
}

#[derive(Clone, Copy, PartialEq, Eq, Debug)]
pub enum Call {
    Connect,
    Disconnect,
    Send,
    Flush,
    Tick,
    SendConnless,
    Feed,
    Reset,
}

impl Call {
    fn name(self) -> &'static str {
        match self {
            Call::Connect => "connect",
            Call::Disconnect => "disconnect",
            Call::Send => "send",
            Call::Flush => "flush",
            Call::Tick => "tick",
            Call::SendConnless => "send_connless",
            Call::Feed => "feed",
            Call::Reset => "reset",
        }
    }
}

pub struct Side {
    pub conn: AnyConn,
    pub cb: SimCb,
    pub called_connect: bool,
    pub ready_seen: bool,
    /// the application knows it may send (A: got Ready; B: was handed a chunk)
    pub may_send: bool,
    /// disconnect called or Disconnect event received
    pub closed: bool,
    pub accept_on_wire: bool,
    /// vital chunks submitted by this side, in order
    pub sub_vital: Vec<Vec<u8>>,
    /// how many of them the peer's application has been handed
    pub delivered: usize,
    /// every non-vital payload ever submitted (C01 membership)
    pub nonvital_ever: BTreeMap<Vec<u8>, u32>,
    /// non-vital chunks queued and not yet seen in a datagram (C04)
    pub nonvital_pending: Vec<Vec<u8>>,
    pub connless_pending: Vec<Vec<u8>>,
    /// payloads refused with TooLongData: must never show up on the wire
    pub refused: Vec<Vec<u8>>,
    pub ticks_in_suffix: u32,
    /// reason passed to disconnect(), if called
    pub close_reason: Option<Vec<u8>>,
}

pub struct World<'a> {
    pub prop: NetProp,
    pub cfg: &'a NetCfg,
    pub s: [Side; 2],
    pub wire: [Vec<Dgram>; 2],
    /// datagrams already delivered (bounded window: the first 12 and the latest 48 per direction)
    pub delivered_log: [Vec<Dgram>; 2],
    pub stale: [Vec<Vec<u8>>; 2],
    pub in_suffix: bool,
    pub injecting: bool,
    /// the acceptor's real token, learnt from its ConnectAccept (alien_token runs)
    pub alien_real: Option<[u8; 4]>,
    /// a token-carrying forged datagram was fed: the delivery model (C01) no longer applies
    pub forged: bool,
    pub tm_before: Option<bool>,
    pub session: u32,
    /// when set, every datagram successfully sent is also recorded here (by sender)
    pub wirelog: Option<[Vec<Vec<u8>>; 2]>,
}

/// The twelve byte values the protocol's Huffman table encodes with the most bits (computed from the table).
fn expensive_symbols() -> &'static [u8] {
    static E: std::sync::OnceLock<Vec<u8>> = std::sync::OnceLock::new();
    E.get_or_init(|| {
        let mut cost: Vec<(usize, u8)> = (0..=255u8).map(|b| (HUFFMAN.compressed_len(&[b; 64]), b)).collect();
        cost.sort_by(|a, b| b.cmp(a));
        cost.iter().take(12).map(|c| c.1).collect()
    })
}

pub fn payload(seed: u64, ep: u8, vital: bool, len: usize, fill: u8, tag: u32) -> Vec<u8> {
    let mut r = Prng::new(mix(seed, tag as u64, 0x70_61_79));
    let mut v = vec![0u8; len];
    match fill % 5 {
        4 => {
            // the byte values with the longest Huffman codes: "compressed" is far larger than plain
            let e = expensive_symbols();
            for b in v.iter_mut() {
                *b = e[r.usize_below(e.len())];
            }
        }
        0 => {} // zeros: maximally compressible
        1 => r.fill(&mut v), // incompressible
        2 => {
            // text-like
            for b in v.iter_mut() {
                *b = b"etaoin shrdlu\0\x01\x40"[r.usize_below(16)];
            }
        }
        _ => {
            // runs
            let mut i = 0;
            while i < len {
                let b = r.below(256) as u8;
                let n = 1 + r.usize_below(40);
                for x in v[i..len.min(i + n)].iter_mut() {
                    *x = b;
                }
                i += n;
            }
        }
    }
    if len >= 6 {
        v[0] = ep | if vital { 0x80 } else { 0x40 };
        v[1] = 0xA5;
        v[2..6].copy_from_slice(&tag.to_le_bytes());
    }
    v
}

pub(super) fn hex(b: &[u8]) -> String {
    let mut s = String::new();
    for (i, x) in b.iter().enumerate() {
        if i >= 24 {
            s.push_str(&format!("..(+{})", b.len() - i));
            break;
        }
        s.push_str(&format!("{:02x}", x));
    }
    s
}

pub(super) fn len_bucket(n: usize) -> &'static str {
    match n {
        0 => "0",
        1..=5 => "1-5",
        6..=255 => "6-255",
        256..=1023 => "256-1023",
        1024..=1387 => "1024-1387",
        1388..=1390 => "1388-1390",
        _ => ">1390",
    }
}

impl<'a> World<'a> {
    pub fn new(prop: NetProp, cfg: &'a NetCfg) -> World<'a> {
        let mk = |i: usize| Side {
            conn: AnyConn::new(cfg.proto),
            cb: SimCb::new(Prng::stream(cfg.seed, 10 + i as u64), cfg.weak_rng[i], (cfg.seed >> (8 * i)) as u8),
            called_connect: false,
            ready_seen: false,
            may_send: false,
            closed: false,
            accept_on_wire: false,
            sub_vital: Vec::new(),
            delivered: 0,
            nonvital_ever: BTreeMap::new(),
            nonvital_pending: Vec::new(),
            connless_pending: Vec::new(),
            refused: Vec::new(),
            ticks_in_suffix: 0,
            close_reason: None,
        };
        World {
            prop,
            cfg,
            s: [mk(0), mk(1)],
            wire: [Vec::new(), Vec::new()],
            delivered_log: [Vec::new(), Vec::new()],
            stale: [Vec::new(), Vec::new()],
            in_suffix: false,
            injecting: false,
            alien_real: None,
            forged: false,
            tm_before: None,
            session: 0,
            wirelog: None,
        }
    }

    /// Forget the per-session application model of `ep` (connection object, clock and RNG stay).
    pub(super) fn new_session_model(&mut self, ep: usize) {
        let s = &mut self.s[ep];
        s.called_connect = false;
        s.ready_seen = false;
        s.may_send = false;
        s.closed = false;
        s.accept_on_wire = false;
        s.sub_vital.clear();
        s.delivered = 0;
        s.nonvital_ever.clear();
        s.nonvital_pending.clear();
        s.connless_pending.clear();
        s.refused.clear();
        s.ticks_in_suffix = 0;
        s.close_reason = None;
        s.cb.send_err_left = 0;
    }

    pub(super) fn pname(&self) -> &'static str {
        self.cfg.proto.name()
    }

    pub(super) fn viol(&self, class: &str, keys: &[(&str, &str)], obs: String) -> Violation {
        let mut k: Vec<(&str, &str)> = keys.to_vec();
        k.push(("proto", self.pname()));
        Violation::new(self.prop.id(), class, &k, obs)
    }

    /// An observation that is the business of `owner`: reported if this run
    /// checks that property, otherwise the run is ended without a report.
    pub(super) fn report(&self, ctx: &mut Ctx, owner: NetProp, v: Violation) -> Option<Violation> {
        if owner == self.prop {
            Some(v)
        } else {
            ctx.aborted_other = Some(format!("{} {:?}: {}", owner.id(), v.sig, v.observation));
            // sentinel: caller must stop the run
            Some(Violation::new("OTHER", "other", &[], String::new()))
        }
    }

    pub(super) fn on_panic(&self, ctx: &mut Ctx, ep: usize, call: Call, p: PanicInfo) -> Option<Violation> {
        if p.is_budget() {
            let v = Violation::new(
                "C02",
                "unbounded-loop",
                &[("proto", self.pname()), ("call", call.name())],
                format!("{} on {} never returned: {}", call.name(), ["A", "B"][ep], p.msg),
            );
            return self.report(ctx, NetProp::C02, v);
        }
        if self.injecting {
            let v = Violation::new(
                "C03",
                "panic-on-foreign-datagram",
                &[("proto", self.pname()), ("message", &p.msg_class()), ("file", &p.file_class())],
                format!("feeding a datagram without the agreed token panicked: {} at {}:{}", p.msg, p.file, p.line),
            );
            return self.report(ctx, NetProp::C03, v);
        }
        let v = Violation::new(
            "C04",
            "panic",
            &[("proto", self.pname()), ("call", call.name()), ("message", &p.msg_class()), ("file", &p.file_class())],
            format!("{} on {} panicked: {} at {}:{}", call.name(), ["A", "B"][ep], p.msg, p.file, p.line),
        );
        self.report(ctx, NetProp::C04, v)
    }

    /// Does the 0.6 datagram this call produces carry a token? (the reader is told the truth)
    fn v6_has_token(&self, ep: usize, call: Call, before: &str, after: &str) -> bool {
        match self.cfg.proto {
            Proto::V7 => true,
            Proto::V6Token => {
                if ep == 1 && before == "Unconnected" && after == "Pending" {
                    // answering a connect: token iff the connect announced support (it did)
                    return true;
                }
                !(before == "Unconnected" && call == Call::Disconnect)
            }
            Proto::V6NoToken => ep == 0 && (call == Call::Connect || (before == "Connecting" && after != "Online")),
        }
    }

    /// Performs one API call on endpoint `ep` with panic capture, then taps and
    /// forwards what it sent.
    pub(super) fn api<R>(
        &mut self,
        ctx: &mut Ctx,
        ep: usize,
        call: Call,
        f: impl FnOnce(&mut AnyConn, &mut SimCb) -> R,
    ) -> Result<R, Violation> {
        let before = self.s[ep].conn.state_name();
        self.tm_before = self.s[ep].conn.token_mode_fixed();
        let side = &mut self.s[ep];
        side.cb.calls = 0;
        side.cb.out.clear();
        let errs0 = side.cb.send_errs_fired;
        let weak0 = side.cb.weak_fired;
        let r = {
            let conn = &mut side.conn;
            let cb = &mut side.cb;
            guard(move || f(conn, cb))
        };
        let side = &mut self.s[ep];
        ctx.count_n("fault_send_failure", (side.cb.send_errs_fired - errs0) as u64);
        ctx.count_n("fault_weak_rng", (side.cb.weak_fired - weak0) as u64);
        if side.cb.send_errs_fired > errs0 {
            ctx.fault_inflight = true;
        }
        match r {
            Err(p) => {
                ctx.logf(|| format!("PANIC in {} on {}: {} at {}:{}", call.name(), ["A", "B"][ep], p.msg, p.file, p.line));
                Err(self.on_panic(ctx, ep, call, p).unwrap())
            }
            Ok(v) => {
                let after = self.s[ep].conn.state_name();
                let out = std::mem::take(&mut self.s[ep].cb.out);
                if out.len() >= 2 && call != Call::Feed {
                    ctx.count("probe_multi_datagram_call");
                }
                for (bytes, ok) in out {
                    if let Some(v) = self.egress(ctx, ep, call, before, after, bytes, ok) {
                        return Err(v);
                    }
                }
                Ok(v)
            }
        }
    }

    /// Everything handed to `Callback::send` passes here.
    fn egress(
        &mut self,
        ctx: &mut Ctx,
        ep: usize,
        call: Call,
        before: &str,
        after: &str,
        mut bytes: Vec<u8>,
        ok: bool,
    ) -> Option<Violation> {
        ctx.t(0x100 + ep as u64);
        ctx.t(bytes.len() as u64);
        ctx.logf(|| format!("    {} sends {} bytes{}: {}", ["A", "B"][ep], bytes.len(), if ok { "" } else { " (send failed)" }, hex(&bytes)));
        // accept detection by fixed header bytes (independent of the library parser)
        if ep == 1 {
            let is_accept = match self.cfg.proto {
                Proto::V7 => bytes.len() >= 8 && bytes[0] & 0x04 != 0 && bytes[0] & 0x20 == 0 && bytes[7] == 2,
                _ => bytes.len() >= 4 && bytes[0] & 0x10 != 0 && bytes[0] & 0x20 == 0 && bytes[3] == 2,
            };
            if is_accept && ok {
                self.s[1].accept_on_wire = true;
            }
        }
        if self.prop == NetProp::C04 {
            let mut has_token = self.v6_has_token(ep, call, before, after);
            if self.forged && !self.cfg.proto.is_v7() {
                // after authenticated forged traffic the token mode is whatever the endpoint was talked into
                if let Some(m) = self.s[ep].conn.token_mode_fixed().or(self.tm_before) {
                    has_token = m;
                }
            }
            if let Some(v) = self.tap(ctx, ep, &bytes, has_token) {
                return Some(v);
            }
        }
        if self.prop == NetProp::C03 && self.injecting {
            let v = self.viol(
                "foreign-datagram-triggered-send",
                &[("state", before)],
                format!("endpoint {} in state {} sent {} bytes in response to a datagram without its token: {}", ["A", "B"][ep], before, bytes.len(), hex(&bytes)),
            );
            return Some(v);
        }
        if !ok {
            return None;
        }
        // "server without token support": the TKEN extension of the connect is dropped on the wire
        if self.cfg.proto == Proto::V6NoToken && ep == 0 && bytes == b"\x10\x00\x00\x01TKEN\xff\xff\xff\xff" {
            bytes.truncate(4);
        }
        if !bytes.is_empty() && (bytes[0] & if self.cfg.proto.is_v7() { 0x08 } else { 0x40 }) != 0 && (bytes[0] & 0x20) == 0 {
            ctx.count("probe_request_resend_sent");
        }
        if bytes.len() > 7 && (bytes[0] & if self.cfg.proto.is_v7() { 0x10 } else { 0x80 }) != 0 {
            ctx.count("probe_compressed_datagram");
        }
        if let Some(l) = self.wirelog.as_mut() {
            l[ep].push(bytes.clone());
        }
        let sent_at = [self.s[0].sub_vital.len() as u64, self.s[1].sub_vital.len() as u64];
        self.wire[ep].push(Dgram { bytes, sent_at });
        if self.wire[ep].len() >= 2 {
            ctx.count("probe_two_in_flight");
        }
        None
    }

    // ------------------------------------------------------------------
    // C04 wire tap

    fn vital_model_lookup(&self, ep: usize, seq: u16) -> Option<&Vec<u8>> {
        // k-th submission (1-based) carries sequence k mod 1024; the newest matching one is meant
        let n = self.s[ep].sub_vital.len();
        if n == 0 {
            return None;
        }
        // a sequence number that no submission can carry (more than n behind) has no model entry
        let mut k = n.checked_sub((n + 1024 - seq as usize % 1024) % 1024)?;
        if k == 0 {
            if n >= 1024 {
                k = 1024;
            } else {
                return None;
            }
        }
        if k > n {
            return None;
        }
        self.s[ep].sub_vital.get(k - 1)
    }

    fn tap(&mut self, ctx: &mut Ctx, ep: usize, bytes: &[u8], has_token: bool) -> Option<Violation> {
        ctx.oracle_event = true;
        let who = ["A", "B"][ep];
        if bytes.len() > 1400 {
            return Some(self.viol("oversize-datagram", &[], format!("{} handed {} bytes to send()", who, bytes.len())));
        }
        // (kind, chunks: Vec<(data, vital seq)>, header count)
        enum Parsed {
            Connless(Vec<u8>),
            Control(&'static str, Option<Vec<u8>>),
            Chunks(u8, Vec<(Vec<u8>, Option<u16>)>),
        }
        let mut warns: Vec<String> = Vec::new();
        let mut buf: ArrayVec<[u8; 2048]> = ArrayVec::new();
        let parsed = if self.cfg.proto.is_v7() {
            let mut w: Vec<p7::Warning> = Vec::new();
            let r = guard(|| p7::Packet::read(&mut w, bytes, &mut buf));
            let r = match r {
                Ok(r) => r,
                Err(p) => return Some(self.viol("unreadable-datagram", &[("error", "reader-panic")], format!("library reader panicked on a datagram {} sent: {} ({})", who, p.msg, hex(bytes)))),
            };
            warns.extend(w.iter().map(|x| format!("{:?}", x)));
            match r {
                Err(e) => return Some(self.viol("unreadable-datagram", &[("error", &format!("{:?}", e))], format!("library reader rejects a datagram {} sent: {:?}: {}", who, e, hex(bytes)))),
                Ok(p7::Packet::Connless(c)) => Parsed::Connless(c.payload.to_vec()),
                Ok(p7::Packet::Connected(c)) => match c.type_ {
                    p7::ConnectedPacketType::Control(ctrl) => Parsed::Control(match ctrl {
                        p7::ControlPacket::KeepAlive => "KeepAlive",
                        p7::ControlPacket::Connect(_) => "Connect",
                        p7::ControlPacket::Accept => "Accept",
                        p7::ControlPacket::Close(_) => "Close",
                        p7::ControlPacket::Token(_) => "Token",
                    }, if let p7::ControlPacket::Close(r) = ctrl { Some(r.to_vec()) } else { None }),
                    p7::ConnectedPacketType::Chunks(_, n, payload) => {
                        let mut it = p7::ChunksIter::new(payload, n);
                        let mut w: Vec<p7::Warning> = Vec::new();
                        let mut v = Vec::new();
                        while let Some(c) = it.next_warn(&mut w) {
                            v.push((c.data.to_vec(), c.vital.map(|x| x.0)));
                        }
                        warns.extend(w.iter().map(|x| format!("{:?}", x)));
                        Parsed::Chunks(n, v)
                    }
                },
            }
        } else {
            let mut w: Vec<p6::Warning> = Vec::new();
            let r = guard(|| p6::Packet::read(&mut w, bytes, Some(has_token), &mut buf));
            let r = match r {
                Ok(r) => r,
                Err(p) => return Some(self.viol("unreadable-datagram", &[("error", "reader-panic")], format!("library reader panicked on a datagram {} sent: {} ({})", who, p.msg, hex(bytes)))),
            };
            warns.extend(w.iter().map(|x| format!("{:?}", x)));
            match r {
                Err(e) => return Some(self.viol("unreadable-datagram", &[("error", &format!("{:?}", e))], format!("library reader rejects a datagram {} sent: {:?}: {}", who, e, hex(bytes)))),
                Ok(p6::Packet::Connless(d)) => Parsed::Connless(d.to_vec()),
                Ok(p6::Packet::Connected(c)) => match c.type_ {
                    p6::ConnectedPacketType::Control(ctrl) => Parsed::Control(match ctrl {
                        p6::ControlPacket::KeepAlive => "KeepAlive",
                        p6::ControlPacket::Connect => "Connect",
                        p6::ControlPacket::ConnectAccept => "ConnectAccept",
                        p6::ControlPacket::Accept => "Accept",
                        p6::ControlPacket::Close(_) => "Close",
                    }, if let p6::ControlPacket::Close(r) = ctrl { Some(r.to_vec()) } else { None }),
                    p6::ConnectedPacketType::Chunks(_, n, payload) => {
                        let mut it = p6::ChunksIter::new(payload, n);
                        let mut w: Vec<p6::Warning> = Vec::new();
                        let mut v = Vec::new();
                        while let Some(c) = it.next_warn(&mut w) {
                            v.push((c.data.to_vec(), c.vital.map(|x| x.0)));
                        }
                        warns.extend(w.iter().map(|x| format!("{:?}", x)));
                        Parsed::Chunks(n, v)
                    }
                },
            }
        };
        if let Some(w) = warns.first() {
            return Some(self.viol("datagram-with-warning", &[("warning", w)], format!("library reader warns {:?} about a datagram {} sent: {}", warns, who, hex(bytes))));
        }
        match parsed {
            Parsed::Connless(d) => {
                if let Some(i) = self.s[ep].connless_pending.iter().position(|x| *x == d) {
                    self.s[ep].connless_pending.remove(i);
                } else {
                    return Some(self.viol("connless-not-queued", &[], format!("{} sent a connectionless datagram nobody submitted: {}", who, hex(&d))));
                }
            }
            Parsed::Control(kind, reason) => {
                if let Some(r) = reason {
                    if self.s[ep].close_reason.as_ref() != Some(&r) {
                        return Some(self.viol("close-reason-differs", &[], format!("{} sent a close with reason {:?} but disconnect() was given {:?}", who, String::from_utf8_lossy(&r), self.s[ep].close_reason.as_ref().map(|x| String::from_utf8_lossy(x).to_string()))));
                    }
                }
                let legal: &[&str] = match (self.cfg.proto.is_v7(), ep) {
                    (false, 0) => &["Connect", "Accept", "KeepAlive", "Close"],
                    (false, _) => &["ConnectAccept", "KeepAlive", "Close"],
                    (true, 0) => &["Token", "Connect", "KeepAlive", "Close"],
                    (true, _) => &["Token", "Accept", "KeepAlive", "Close"],
                };
                if !legal.contains(&kind) {
                    return Some(self.viol("illegal-control-for-role", &[("kind", kind)], format!("{} sent control packet {} which its role never sends", who, kind)));
                }
            }
            Parsed::Chunks(n, chunks) => {
                if chunks.len() != n as usize {
                    return Some(self.viol("chunk-count-mismatch", &[], format!("{} sent a header announcing {} chunks but the datagram carries {}", who, n, chunks.len())));
                }
                if chunks.len() >= 2 {
                    ctx.count("probe_multi_chunk_datagram");
                }
                for (data, vital) in chunks {
                    if self.s[ep].refused.iter().any(|r| *r == data) && data.len() > 6 {
                        return Some(self.viol("refused-payload-on-wire", &[], format!("{} sent a {}-byte chunk that send() had refused", who, data.len())));
                    }
                    match vital {
                        Some(seq) => {
                            let ok = self.vital_model_lookup(ep, seq).map(|m| *m == data).unwrap_or(false);
                            if !ok {
                                return Some(self.viol("vital-chunk-differs-from-queued", &[("len", len_bucket(data.len()))], format!("{} sent vital chunk seq {} ({} bytes: {}) that differs from the submission with that sequence number", who, seq, data.len(), hex(&data))));
                            }
                        }
                        None => {
                            if let Some(i) = self.s[ep].nonvital_pending.iter().position(|x| *x == data) {
                                self.s[ep].nonvital_pending.remove(i);
                            } else {
                                return Some(self.viol("nonvital-chunk-not-queued", &[], format!("{} sent a non-vital chunk ({} bytes: {}) that is not queued (never submitted, or already sent)", who, data.len(), hex(&data))));
                            }
                        }
                    }
                }
            }
        }
        None
    }
}

#[allow(dead_code)]
pub(super) fn _unused() {
    let _ = fnv1a;
    let _ = &HUFFMAN;
}

// ---------------------------------------------------------------------------

pub struct NetEngine {
    pub prop: NetProp,
}

impl Engine for NetEngine {
    type Cfg = NetCfg;
    type Op = NetOp;
    fn engine_name(&self) -> &'static str {
        "net"
    }
    fn property(&self) -> &'static str {
        self.prop.id()
    }
    fn generate(&self, seed: u64, tier: Tier) -> Case<NetCfg, NetOp> {
        super::netgen::generate(self.prop, seed, tier)
    }
    fn execute(&self, case: &Case<NetCfg, NetOp>, ctx: &mut Ctx) -> Option<Violation> {
        super::net_exec::run_ops(self.prop, case, ctx)
    }
    fn simplify_op(&self, op: &NetOp) -> Vec<NetOp> {
        super::netgen::simplify_op(op)
    }
    fn simplify_cfg(&self, cfg: &NetCfg) -> Vec<NetCfg> {
        let mut v = Vec::new();
        if cfg.weak_rng != [0, 0] {
            v.push(NetCfg { weak_rng: [0, 0], ..cfg.clone() });
        }
        v
    }
    fn budget(&self) -> (u64, u64) {
        match self.prop {
            NetProp::C01 => (120_000, 360),
            NetProp::C02 => (80_000, 360),
            NetProp::C03 => (80_000, 360),
            NetProp::C04 => (120_000, 360),
        }
    }
    fn info(&self) -> EngineInfo {
        let common_faults = vec![
            "fault_loss", "fault_loss_aged", "fault_duplication", "fault_reorder", "fault_send_failure",
            "fault_clock_skew", "fault_clock_jump", "fault_weak_rng", "fault_foreign_datagram", "fault_forged_datagram", "fault_late_duplicate",
        ];
        let (rule, probes): (&str, Vec<&'static str>) = match self.prop {
            NetProp::C01 => (
                "one run = swarm config (protocol variant, enabled fault kinds and rates, size/op profile, window, age) + a compiled op list (connect/send/flush/tick/advance/deliver/drop/dup/send-failure) executed against two real Connection objects over the simulated network; every ReceiveChunk event is checked against the sequential model. Non-trivial = at least one network fault fired while datagrams were in flight AND at least one application event was checked; distinct = distinct hash of the (op kind, outcome, abstract state) trace.",
                vec!["probe_ready", "probe_vital_delivered", "probe_nonvital_delivered", "probe_tick_with_unacked", "probe_multi_datagram_call", "probe_compressed_datagram", "probe_two_in_flight", "probe_ack_processed"],
            ),
            NetProp::C02 => (
                "one run = adversarial prefix (as C01, sizes over the whole accepted range) followed by a fair suffix on a discrete-event clock (every in-flight datagram delivered once, each side ticked exactly at needs_tick()). Oracles: per-call callback budget (every call returns), deadline-finite invariant after every op, stall detector in the suffix (no progress for 10 simulated seconds while obligations remain). Non-trivial = a fault fired in flight AND an obligation existed; distinct = distinct trace hash.",
                vec!["probe_ready", "probe_suffix_settled", "probe_tick_with_unacked", "probe_multi_datagram_call"],
            ),
            NetProp::C03 => (
                "one run = a stale incarnation (recorded), then a fresh connection under light faults with adversarial Inject ops: stale datagrams, in-flight datagrams re-encoded under another token, every control kind / chunk packets under wrong, none or reserved tokens, truncations, mutations, random bytes. Oracle: feed is a no-op on the complete endpoint fingerprint, yields no event, no send, no randomness. Non-trivial = at least one foreign datagram was actually fed to an endpoint with a fixed token; distinct = distinct trace hash.",
                vec!["probe_inject_fed", "probe_inject_state_online", "probe_inject_state_pending", "probe_inject_retokened_inflight", "probe_inject_stale"],
            ),
            NetProp::C04 => (
                "one run = API-edge workload (payload lengths 0..beyond every limit, bursts of hundreds of tiny chunks without flush, late ticks, connless sends, disconnect in every state) under network faults; every datagram handed to Callback::send is parsed with the library reader (true token mode) and compared with the model of queued chunks. Non-trivial = a fault fired in flight AND at least one datagram was tapped; distinct = distinct trace hash.",
                vec!["probe_send_refused", "probe_multi_chunk_datagram", "probe_multi_datagram_call", "probe_connless_submitted", "probe_disconnect_online", "probe_disconnect_unconnected", "probe_compressed_datagram"],
            ),
        };
        EngineInfo {
            rule: rule.into(),
            assumptions: vec![
                "the application drains every event iterator and only makes calls the API permits".into(),
                "clocks are monotone; fewer than `window` (<=400) vital chunks unacknowledged; the network discards a datagram once either side submitted `age` (<=400) more vital chunks".into(),
                "no datagram corruption on the legitimate path (the protocol has no checksum)".into(),
                "sampling, not enumeration: a clean batch is evidence, not proof".into(),
            ],
            real: vec!["net::connection::Connection", "net::connection7::Connection", "net::protocol / protocol7 (packet reader, writer, chunk iterator)", "huffman", "buffer"],
            stub: vec!["UDP socket (SimNet)", "OS clock (per-endpoint simulated clock)", "OS RNG (seeded stream, optionally weak)", "event-loop / socket crates (not anchored)"],
            required_probes: probes,
            fault_kinds: common_faults,
        }
    }
}
