//! Execution of the op list for the `net` engine: application model, event
//! oracles (C01), deadline / liveness oracles (C02), refusal oracle (C04).

use super::net::*;
use super::netconn::*;
use crate::core::*;
use crate::prng::{mix, Prng};
use libtw2_huffman::instances::TEEWORLDS as HUFFMAN;

fn bucket(n: usize) -> u64 {
    match n {
        0 => 0,
        1 => 1,
        2..=3 => 2,
        4..=15 => 3,
        16..=63 => 4,
        64..=255 => 5,
        _ => 6,
    }
}

fn state_id(s: &str) -> u64 {
    match s {
        "Unconnected" => 0,
        "Connecting" => 1,
        "Pending" => 2,
        "Online" => 3,
        "Disconnected" => 4,
        "Token" => 5,
        "PendingConnect" => 6,
        _ => 7,
    }
}

fn is_sentinel(v: &Violation) -> bool {
    v.property == "OTHER"
}

impl<'a> World<'a> {
    pub fn abstract_state(&self) -> u64 {
        let a = &self.s[0];
        let b = &self.s[1];
        let mut h = state_id(a.conn.state_name());
        h = h * 8 + state_id(b.conn.state_name());
        h = h * 8 + bucket(a.conn.unacked());
        h = h * 8 + bucket(b.conn.unacked());
        h = h * 8 + bucket(self.wire[0].len());
        h = h * 8 + bucket(self.wire[1].len());
        h = h * 2 + (a.conn.queued() > 0) as u64;
        h = h * 2 + (b.conn.queued() > 0) as u64;
        h = h * 2 + self.in_suffix as u64;
        h = h * 2 + a.conn.needs_tick().map(|d| d <= a.cb.now).unwrap_or(false) as u64;
        h = h * 2 + b.conn.needs_tick().map(|d| d <= b.cb.now).unwrap_or(false) as u64;
        h * 4 + self.cfg.proto as u64
    }

    fn age_out(&mut self, ctx: &mut Ctx) {
        let cur = [self.s[0].sub_vital.len() as u64, self.s[1].sub_vital.len() as u64];
        let age = self.cfg.age as u64;
        for dir in 0..2 {
            let before = self.wire[dir].len();
            // (saturating: a refused submission is taken back from the model after the call)
            self.wire[dir].retain(|d| cur[0].saturating_sub(d.sent_at[0]) < age && cur[1].saturating_sub(d.sent_at[1]) < age);
            let aged = before - self.wire[dir].len();
            if aged > 0 {
                ctx.count_n("fault_loss_aged", aged as u64);
            }
        }
    }

    fn pick_index(len: usize, pick: i32) -> usize {
        if pick >= 0 {
            pick as usize % len
        } else {
            len - 1 - ((-(pick as i64) - 1) as usize % len)
        }
    }

    /// Events handed to the application of `ep` (iterator already drained).
    fn on_events(&mut self, ctx: &mut Ctx, ep: usize, events: Vec<Ev>) -> Option<Violation> {
        let peer = 1 - ep;
        let who = ["A", "B"][ep];
        for ev in events {
            ctx.oracle_event = true;
            if self.forged {
                // authenticated forged traffic was fed: keep the application flags, no delivery oracle
                match ev {
                    Ev::Ready => {
                        self.s[ep].ready_seen = true;
                        self.s[ep].may_send = true;
                    }
                    Ev::Chunk(..) => self.s[ep].may_send = true,
                    Ev::Disconnect(_) => self.s[ep].closed = true,
                    Ev::Connless(_) => {}
                }
                continue;
            }
            match ev {
                Ev::Ready => {
                    ctx.t(0x201);
                    ctx.logf(|| format!("    {} <- Ready", who));
                    let v = if ep == 1 {
                        Some(self.viol("ready-on-accepting-side", &[], "the accepting side was told Ready".into()))
                    } else if !self.s[0].called_connect {
                        Some(self.viol("ready-without-connect", &[], "A was told Ready without having called connect".into()))
                    } else if self.s[0].ready_seen {
                        Some(self.viol("ready-twice", &[], "the connecting side was told Ready a second time".into()))
                    } else if !self.s[1].accept_on_wire {
                        Some(self.viol("ready-before-accept", &[], "the connecting side was told Ready before the accepting side had put any accept on the wire".into()))
                    } else {
                        None
                    };
                    if let Some(v) = v {
                        if let Some(r) = self.report(ctx, NetProp::C01, Violation { property: "C01".into(), ..v }) {
                            return Some(r);
                        }
                    }
                    self.s[0].ready_seen = true;
                    self.s[0].may_send = true;
                    ctx.count("probe_ready");
                }
                Ev::Chunk(d, vital) => {
                    ctx.t(0x202 + vital as u64);
                    ctx.logf(|| format!("    {} <- chunk vital={} {} bytes: {}", who, vital, d.len(), hex(&d)));
                    let mut v: Option<Violation> = None;
                    if ep == 0 && !self.s[0].ready_seen {
                        v = Some(self.viol("chunk-before-ready", &[], "the connecting side was handed a chunk before Ready".into()));
                    }
                    if ep == 1 {
                        self.s[1].may_send = true;
                    }
                    if v.is_none() {
                        if vital {
                            let k = self.s[peer].delivered;
                            let sub = &self.s[peer].sub_vital;
                            if k >= sub.len() {
                                v = Some(self.viol("vital-not-submitted", &[], format!("{} was handed vital chunk #{} but only {} were ever submitted ({} bytes: {})", who, k + 1, sub.len(), d.len(), hex(&d))));
                            } else if sub[k] != d {
                                let class = if sub[..k].iter().any(|x| *x == d) {
                                    "vital-duplicated-or-reordered"
                                } else if sub[k + 1..].iter().any(|x| *x == d) {
                                    "vital-skipped"
                                } else {
                                    "vital-altered"
                                };
                                v = Some(self.viol(class, &[], format!("{} was handed as vital chunk #{} {} bytes {} but submission #{} was {} bytes {}", who, k + 1, d.len(), hex(&d), k + 1, sub[k].len(), hex(&sub[k]))));
                            } else {
                                self.s[peer].delivered += 1;
                                ctx.count("probe_vital_delivered");
                                if self.s[peer].delivered > 1023 {
                                    ctx.count("probe_sequence_wrapped");
                                }
                            }
                        } else {
                            ctx.count("probe_nonvital_delivered");
                            if !self.s[peer].nonvital_ever.contains_key(&d) {
                                v = Some(self.viol("nonvital-never-sent", &[], format!("{} was handed a non-vital chunk nobody submitted ({} bytes: {})", who, d.len(), hex(&d))));
                            }
                        }
                    }
                    if let Some(v) = v {
                        if let Some(r) = self.report(ctx, NetProp::C01, Violation { property: "C01".into(), ..v }) {
                            return Some(r);
                        }
                    }
                }
                Ev::Disconnect(r) => {
                    ctx.t(0x204);
                    ctx.logf(|| format!("    {} <- Disconnect {:?}", who, String::from_utf8_lossy(&r)));
                    self.s[ep].closed = true;
                    ctx.count("probe_disconnect_event");
                }
                Ev::Connless(d) => {
                    ctx.t(0x205);
                    ctx.logf(|| format!("    {} <- connless {} bytes", who, d.len()));
                    ctx.count("probe_connless_delivered");
                }
            }
        }
        None
    }

    /// alien_token runs: the middlebox between the endpoints. Towards A the acceptor's real token at the end
    /// of a datagram becomes the reserved value, towards B (once A is online) the reserved value becomes the
    /// real token again; Huffman-compressed datagrams are unpacked and packed again.
    fn translate(&mut self, ctx: &mut Ctx, ep: usize, bytes: &[u8]) -> Vec<u8> {
        let alien: [u8; 4] = if self.cfg.alien_token == 1 { [0; 4] } else { [0xff; 4] };
        if bytes.len() < 3 || bytes[0] & 0x20 != 0 {
            return bytes.to_vec();
        }
        let compressed = bytes[0] & 0x80 != 0;
        let mut payload = if compressed {
            match HUFFMAN.decompress_into_vec(&bytes[3..]) {
                Ok(p) => p,
                Err(_) => return bytes.to_vec(),
            }
        } else {
            bytes[3..].to_vec()
        };
        let n = payload.len();
        if n < 4 {
            return bytes.to_vec();
        }
        if ep == 0 && self.alien_real.is_none() && !compressed && bytes[0] & 0x10 != 0 && n == 9 && payload[0] == 2 && &payload[1..5] == b"TKEN" {
            self.alien_real = Some([payload[5], payload[6], payload[7], payload[8]]);
        }
        let real = match self.alien_real {
            Some(t) => t,
            None => return bytes.to_vec(),
        };
        let (from, to) = if ep == 0 { (real, alien) } else { (alien, real) };
        if ep == 1 && self.s[0].conn.state_name() != "Online" {
            return bytes.to_vec();
        }
        if payload[n - 4..] != from {
            return bytes.to_vec();
        }
        payload[n - 4..].copy_from_slice(&to);
        ctx.count("probe_alien_token_translated");
        let mut out = bytes[..3].to_vec();
        if compressed {
            out.extend_from_slice(&HUFFMAN.compress_into_vec(&payload));
        } else {
            out.extend_from_slice(&payload);
        }
        out
    }

    pub(super) fn feed(&mut self, ctx: &mut Ctx, ep: usize, bytes: &[u8]) -> Option<Violation> {
        let translated: Vec<u8>;
        let bytes: &[u8] = if self.cfg.alien_token != 0 && !self.injecting {
            translated = self.translate(ctx, ep, bytes);
            &translated
        } else {
            bytes
        };
        ctx.logf(|| format!("  feed {} with {} bytes: {}", ["A", "B"][ep], bytes.len(), hex(bytes)));
        if self.cfg.stateless_accept && ep == 1 && !self.injecting && self.s[1].conn.state_name() == "Pending" && bytes.len() >= 4 && bytes[0] & 0x30 == 0x10 && bytes[3] == 3 {
            if let Some(t) = self.s[1].conn.expected_token() {
                if bytes.len() >= 8 && bytes[bytes.len() - 4..] == t {
                    // the server keeps no state until the client proved it owns its address
                    let side = &mut self.s[1];
                    side.cb.calls = 0;
                    let cb = &mut side.cb;
                    match guard(move || AnyConn::new_accept_token(cb, t)) {
                        Ok(c) => {
                            self.s[1].conn = c;
                            self.s[1].may_send = true;
                            ctx.count("probe_stateless_accept");
                            ctx.logf(|| "  B: Connection::new_accept_token (stateless accept)".into());
                            return None;
                        }
                        Err(p) => return self.on_panic(ctx, 1, Call::Feed, p),
                    }
                }
            }
        }
        let unacked_before = self.s[ep].conn.unacked();
        let r = self.api(ctx, ep, Call::Feed, |c, cb| c.feed(cb, bytes));
        match r {
            Err(v) => Some(v),
            Ok(out) => {
                if self.s[ep].conn.unacked() < unacked_before {
                    ctx.count("probe_ack_processed");
                }
                if !out.warnings.is_empty() {
                    ctx.count("probe_feed_warning");
                    ctx.logf(|| format!("    warnings: {:?}", out.warnings));
                }
                if out.events.is_empty() && bytes.len() > 3 && bytes[0] & (if self.cfg.proto.is_v7() { 0x24 } else { 0x30 }) == 0 && !self.injecting {
                    ctx.count("probe_chunk_datagram_without_event");
                }
                self.on_events(ctx, ep, out.events)
            }
        }
    }

    /// C02: while anything is unsent, unacknowledged or mid-handshake the deadline is finite.
    fn check_deadline(&mut self, ctx: &mut Ctx) -> Option<Violation> {
        if self.prop != NetProp::C02 {
            return None;
        }
        for ep in 0..2 {
            let s = &self.s[ep];
            if s.closed {
                continue;
            }
            let st = s.conn.state_name();
            let mut why = None;
            if ep == 0 && s.called_connect && !s.ready_seen {
                why = Some("mid-handshake (connect called, not ready)");
            }
            if st == "Pending" {
                why = Some("mid-handshake (connect accepted, no chunk seen yet)");
            }
            if s.conn.queued() > 0 {
                why = Some("chunks queued but not flushed");
            }
            if s.conn.unacked() > 0 || s.delivered < s.sub_vital.len() {
                why = Some("vital chunks unacknowledged");
            }
            if let Some(why) = why {
                ctx.oracle_event = true;
                if s.conn.needs_tick().is_none() {
                    return Some(self.viol(
                        "no-deadline",
                        &[("state", st), ("why", why)],
                        format!("{} reports no tick deadline in state {} although {}", ["A", "B"][ep], st, why),
                    ));
                }
            }
        }
        None
    }

    /// C03: tokens handed out by an acceptor are never a reserved value.
    fn check_reserved(&mut self, ctx: &mut Ctx) -> Option<Violation> {
        if self.prop != NetProp::C03 {
            return None;
        }
        let v7 = self.cfg.proto.is_v7();
        for ep in 0..2 {
            if !v7 && ep == 0 {
                continue; // 0.6: only the acceptor hands out tokens
            }
            if let Some(t) = self.s[ep].conn.expected_token() {
                if self.cfg.weak_rng[ep] > 0 {
                    ctx.oracle_event = true;
                }
                if t == [0xff; 4] || (!v7 && t == [0; 4]) {
                    return Some(self.viol("reserved-token-handed-out", &[], format!("{} uses the reserved token {:02x?}", ["A", "B"][ep], t)));
                }
            }
        }
        None
    }

    pub fn step(&mut self, ctx: &mut Ctx, op: &NetOp) -> Option<Violation> {
        ctx.ops_executed += 1;
        let r = self.step_inner(ctx, op);
        if r.is_some() {
            return r;
        }
        if let Some(v) = self.check_deadline(ctx) {
            return Some(v);
        }
        if let Some(v) = self.check_reserved(ctx) {
            return Some(v);
        }
        let st = self.abstract_state();
        ctx.state(st);
        ctx.t(st);
        None
    }

    fn step_inner(&mut self, ctx: &mut Ctx, op: &NetOp) -> Option<Violation> {
        let seed = self.cfg.seed;
        match *op {
            NetOp::Connect => {
                ctx.t(1);
                if self.s[0].called_connect || self.s[0].closed {
                    return None;
                }
                ctx.logf(|| "A.connect()".into());
                self.s[0].called_connect = true;
                self.api(ctx, 0, Call::Connect, |c, cb| c.connect(cb)).err()
            }
            NetOp::Send { ep, vital, len, fill, tag } => {
                let ep = (ep % 2) as usize;
                ctx.t(2 + vital as u64);
                if !self.s[ep].may_send || self.s[ep].closed {
                    return None;
                }
                if vital && self.s[ep].conn.unacked() >= self.cfg.window as usize {
                    ctx.count("probe_window_full");
                    return None;
                }
                let data = payload(seed, ep as u8, vital, len as usize, fill, tag);
                ctx.logf(|| format!("{}.send(vital={}, {} bytes: {})", ["A", "B"][ep], vital, data.len(), hex(&data)));
                // the model must know the chunk before the call: send() may already put it on the wire
                if vital {
                    self.s[ep].sub_vital.push(data.clone());
                } else {
                    *self.s[ep].nonvital_ever.entry(data.clone()).or_insert(0) += 1;
                    self.s[ep].nonvital_pending.push(data.clone());
                }
                let d2 = data.clone();
                let r = self.api(ctx, ep, Call::Send, move |c, cb| c.send(cb, &d2, vital));
                match r {
                    Err(v) => Some(v),
                    Ok(SendRes::TooLong) => {
                        ctx.count("probe_send_refused");
                        ctx.logf(|| "    -> Err(TooLongData)".into());
                        // undo: it was never queued
                        if vital {
                            self.s[ep].sub_vital.pop();
                        } else {
                            let e = self.s[ep].nonvital_ever.get_mut(&data).unwrap();
                            *e -= 1;
                            if *e == 0 {
                                self.s[ep].nonvital_ever.remove(&data);
                            }
                            if let Some(i) = self.s[ep].nonvital_pending.iter().rposition(|x| *x == data) {
                                self.s[ep].nonvital_pending.remove(i);
                            }
                        }
                        self.s[ep].refused.push(data.clone());
                        if data.len() <= 1000 {
                            let v = Violation::new("C04", "small-payload-refused", &[("proto", self.pname())], format!("send() refused a {}-byte payload", data.len()));
                            return self.report(ctx, NetProp::C04, v);
                        }
                        None
                    }
                    Ok(r) => {
                        if r == SendRes::CallbackErr {
                            ctx.logf(|| "    -> Err(Callback) (chunk stays queued)".into());
                        }
                        ctx.count(if vital { "probe_vital_submitted" } else { "probe_nonvital_submitted" });
                        if data.len() > 1390 {
                            let v = Violation::new("C04", "oversize-payload-accepted", &[("proto", self.pname())], format!("send() accepted a {}-byte payload (documented maximum 1390)", data.len()));
                            return self.report(ctx, NetProp::C04, v);
                        }
                        None
                    }
                }
            }
            NetOp::Flush { ep } => {
                let ep = (ep % 2) as usize;
                ctx.t(4);
                if !self.s[ep].may_send || self.s[ep].closed {
                    return None;
                }
                ctx.logf(|| format!("{}.flush()", ["A", "B"][ep]));
                self.api(ctx, ep, Call::Flush, |c, cb| c.flush(cb)).err()
            }
            NetOp::Tick { ep } => {
                let ep = (ep % 2) as usize;
                ctx.t(5);
                if self.s[ep].closed {
                    return None;
                }
                let due = self.s[ep].conn.needs_tick().map(|d| d <= self.s[ep].cb.now).unwrap_or(false);
                let unacked = self.s[ep].conn.unacked();
                ctx.logf(|| format!("{}.tick() at t={} (due={})", ["A", "B"][ep], self.s[ep].cb.now, due));
                let r = self.api(ctx, ep, Call::Tick, |c, cb| c.tick(cb)).err();
                if due {
                    ctx.count("probe_tick_due");
                    if unacked > 0 {
                        ctx.count("probe_tick_with_unacked");
                    }
                }
                r
            }
            NetOp::Advance { ep, usec } => {
                ctx.t(6);
                let usec = usec.min(3_600_000_000);
                for e in 0..2 {
                    if ep as usize == e || ep >= 2 {
                        if self.s[e].cb.now < (1u64 << 50) {
                            self.s[e].cb.now += usec;
                            ctx.sim_usec += usec;
                        }
                    }
                }
                if ep < 2 && usec > 0 {
                    ctx.count("fault_clock_skew");
                }
                if usec >= 10_000_000 {
                    ctx.count("fault_clock_jump");
                }
                ctx.logf(|| format!("advance clock of {} by {} us", ["A", "B", "both"][(ep as usize).min(2)], usec));
                None
            }
            NetOp::Deliver { dir, pick } => {
                let dir = (dir % 2) as usize;
                ctx.t(7);
                self.age_out(ctx);
                if self.wire[dir].is_empty() {
                    return None;
                }
                let i = Self::pick_index(self.wire[dir].len(), pick);
                if i != 0 {
                    ctx.count("fault_reorder");
                    ctx.fault_inflight = true;
                }
                let d = self.wire[dir].remove(i);
                let to = 1 - dir;
                if self.s[to].closed {
                    return None;
                }
                {
                    let log = &mut self.delivered_log[dir];
                    if log.len() >= 60 {
                        log.remove(12);
                    }
                    log.push(Dgram { bytes: d.bytes.clone(), sent_at: d.sent_at });
                }
                self.feed(ctx, to, &d.bytes)
            }
            NetOp::Redeliver { dir, pick } => {
                let dir = (dir % 2) as usize;
                ctx.t(18);
                // the age bound applies to late copies as well
                let cur = [self.s[0].sub_vital.len() as u64, self.s[1].sub_vital.len() as u64];
                let age = self.cfg.age as u64;
                self.delivered_log[dir].retain(|d| cur[0].saturating_sub(d.sent_at[0]) < age && cur[1].saturating_sub(d.sent_at[1]) < age);
                let to = 1 - dir;
                if self.delivered_log[dir].is_empty() || self.s[to].closed {
                    return None;
                }
                let i = Self::pick_index(self.delivered_log[dir].len(), pick);
                let bytes = self.delivered_log[dir][i].bytes.clone();
                ctx.count("fault_duplication");
                ctx.count("fault_late_duplicate");
                ctx.fault_inflight = true;
                ctx.logf(|| format!("network delivers a late copy of {} datagram #{} of its log ({} bytes)", ["A->B", "B->A"][dir], i, bytes.len()));
                self.feed(ctx, to, &bytes)
            }
            NetOp::Drop { dir, pick } => {
                let dir = (dir % 2) as usize;
                ctx.t(8);
                self.age_out(ctx);
                if self.wire[dir].is_empty() {
                    return None;
                }
                let i = Self::pick_index(self.wire[dir].len(), pick);
                let d = self.wire[dir].remove(i);
                ctx.count("fault_loss");
                ctx.fault_inflight = true;
                ctx.logf(|| format!("network drops {} datagram #{} ({} bytes)", ["A->B", "B->A"][dir], i, d.bytes.len()));
                None
            }
            NetOp::Dup { dir, pick } => {
                let dir = (dir % 2) as usize;
                ctx.t(9);
                self.age_out(ctx);
                if self.wire[dir].is_empty() || self.wire[dir].len() > 4000 {
                    return None;
                }
                let i = Self::pick_index(self.wire[dir].len(), pick);
                let copy = Dgram { bytes: self.wire[dir][i].bytes.clone(), sent_at: self.wire[dir][i].sent_at };
                self.wire[dir].push(copy);
                ctx.count("fault_duplication");
                ctx.fault_inflight = true;
                ctx.logf(|| format!("network duplicates {} datagram #{}", ["A->B", "B->A"][dir], i));
                None
            }
            NetOp::SendErr { ep, n } => {
                ctx.t(10);
                let ep = (ep % 2) as usize;
                self.s[ep].cb.send_err_left = n as u32;
                ctx.logf(|| format!("the next {} send() calls of {} fail", n, ["A", "B"][ep]));
                None
            }
            NetOp::Disconnect { ep, reason_len, tag } => {
                ctx.t(11);
                let ep = (ep % 2) as usize;
                if self.s[ep].closed {
                    return None;
                }
                let mut r = Prng::new(mix(seed, tag as u64, 0x72_65_61));
                let reason: Vec<u8> = (0..reason_len.min(127)).map(|_| 1 + r.below(255) as u8).collect();
                let st = self.s[ep].conn.state_name();
                ctx.logf(|| format!("{}.disconnect({} byte reason) in state {}", ["A", "B"][ep], reason.len(), st));
                ctx.count(match st {
                    "Unconnected" => "probe_disconnect_unconnected",
                    "Online" => "probe_disconnect_online",
                    _ => "probe_disconnect_handshake",
                });
                self.s[ep].closed = true;
                self.s[ep].close_reason = Some(reason.clone());
                self.api(ctx, ep, Call::Disconnect, move |c, cb| c.disconnect(cb, &reason)).err()
            }
            NetOp::SendConnless { ep, len, tag } => {
                ctx.t(12);
                let ep = (ep % 2) as usize;
                if !self.s[ep].may_send || self.s[ep].closed {
                    return None;
                }
                let data = payload(seed, ep as u8, false, len as usize, 1, tag);
                ctx.logf(|| format!("{}.send_connless({} bytes)", ["A", "B"][ep], data.len()));
                self.s[ep].connless_pending.push(data.clone());
                let d2 = data.clone();
                match self.api(ctx, ep, Call::SendConnless, move |c, cb| c.send_connless(cb, &d2)) {
                    Err(v) => Some(v),
                    Ok(SendRes::TooLong) => {
                        self.s[ep].connless_pending.pop();
                        ctx.count("probe_send_refused");
                        if data.len() <= 1000 {
                            let v = Violation::new("C04", "small-payload-refused", &[("proto", self.pname())], format!("send_connless() refused a {}-byte payload", data.len()));
                            return self.report(ctx, NetProp::C04, v);
                        }
                        None
                    }
                    Ok(_) => {
                        ctx.count("probe_connless_submitted");
                        None
                    }
                }
            }
            NetOp::Inject { ep, kind, salt } => {
                ctx.t(13);
                self.inject(ctx, (ep % 2) as usize, kind, salt)
            }
            NetOp::FairSuffix { latency } => {
                ctx.t(14);
                self.fair_suffix(ctx, latency)
            }
            NetOp::Forge { ep, kind, salt } => {
                ctx.t(15);
                self.forge(ctx, (ep % 2) as usize, kind, salt)
            }
            NetOp::Restart { soft } => {
                ctx.t(16 + soft as u64);
                ctx.logf(|| format!("--- session {} ends: both sides disconnect, the network drains, reset() ---", self.session));
                // soft: the acceptor's application knows nothing of the attempt, it just keeps listening
                let keep_b = soft && matches!(self.s[1].conn.state_name(), "Unconnected" | "PendingConnect") && !self.s[1].closed;
                if keep_b {
                    ctx.count("probe_soft_restart_acceptor_kept");
                }
                for ep in 0..2 {
                    if ep == 1 && keep_b {
                        continue;
                    }
                    if self.s[ep].conn.state_name() != "Disconnected" {
                        if !self.s[ep].closed {
                            self.s[ep].closed = true;
                            self.s[ep].close_reason = Some(Vec::new());
                        }
                        if let Err(v) = self.api(ctx, ep, Call::Disconnect, |c, cb| c.disconnect(cb, b"")) {
                            return Some(v);
                        }
                    }
                }
                for dir in 0..2 {
                    self.wire[dir].clear();
                    self.delivered_log[dir].clear();
                }
                for ep in 0..2 {
                    if ep == 1 && keep_b {
                        continue;
                    }
                    if self.s[ep].conn.state_name() != "Disconnected" {
                        // disconnect() failed to disconnect (send error path): reset() would not be a valid call
                        ctx.count("probe_restart_skipped");
                        return None;
                    }
                }
                for ep in 0..2 {
                    if !(ep == 1 && keep_b) {
                        if let Err(v) = self.api(ctx, ep, Call::Reset, |c, _| c.reset()) {
                            return Some(v);
                        }
                    }
                    self.new_session_model(ep);
                }
                self.forged = false;
                self.session += 1;
                ctx.count("probe_session_restarted");
                None
            }
        }
    }

    /// C02: the network stops misbehaving; every datagram is delivered once,
    /// each side ticks exactly when its reported deadline has passed.
    fn fair_suffix(&mut self, ctx: &mut Ctx, latency: u8) -> Option<Violation> {
        if self.in_suffix {
            return None;
        }
        self.in_suffix = true;
        ctx.logf(|| "--- fair suffix: no more faults, no more submissions ---".into());
        let mut rng = Prng::stream(self.cfg.seed, 77);
        let (lat_lo, lat_hi): (u64, u64) = match latency % 4 {
            0 => (20_000, 20_000),  // constant latency: FIFO
            1 => (1_000, 5_000),    // LAN
            2 => (1_000, 200_000),  // heavy jitter: reordering inside bursts
            _ => (50_000, 120_000),
        };
        for s in self.s.iter_mut() {
            s.cb.send_err_left = 0;
        }
        // (due time, seq, dir, bytes) — total order by (time, seq)
        let mut q: std::collections::BinaryHeap<std::cmp::Reverse<(u64, u64, usize, Vec<u8>)>> = std::collections::BinaryHeap::new();
        let mut same_time_ticks = 0u32;
        let mut seq = 0u64;
        let mut now = 0u64; // suffix-global time; endpoint clocks advance in lock-step from their own origins
        for dir in 0..2 {
            for d in std::mem::take(&mut self.wire[dir]) {
                seq += 1;
                q.push(std::cmp::Reverse((now + rng.range(lat_lo, lat_hi), seq, dir, d.bytes)));
            }
        }
        let remaining = |w: &World| -> u64 {
            let a = &w.s[0];
            let b = &w.s[1];
            let mut r = 0u64;
            if a.called_connect && !a.ready_seen && !a.closed && !b.closed {
                r += 1;
            }
            for (x, y) in [(a, b), (b, a)] {
                if !x.closed && !y.closed {
                    r += (x.sub_vital.len() - x.delivered) as u64;
                    r += x.conn.unacked() as u64 + x.conn.queued() as u64;
                }
            }
            r
        };
        let start_remaining = remaining(self);
        let mut best = start_remaining;
        let mut best_at = 0u64;
        let mut events = 0u64;
        const STALL_USEC: u64 = 10_000_000;
        loop {
            let rem = remaining(self);
            if rem < best {
                best = rem;
                best_at = now;
            }
            if rem == 0 && q.is_empty() {
                ctx.count("probe_suffix_settled");
                ctx.count_n("probe_suffix_sim_ms", now / 1000);
                return None;
            }
            if rem > 0 {
                ctx.oracle_event = true;
            }
            if rem > 0 && now - best_at > STALL_USEC {
                let a = &self.s[0];
                let b = &self.s[1];
                let what = if a.called_connect && !a.ready_seen {
                    "connecting side never became ready"
                } else if a.delivered < a.sub_vital.len() || b.delivered < b.sub_vital.len() {
                    "submitted vital chunks are not delivered"
                } else {
                    "chunks stay unacknowledged or queued"
                };
                return Some(self.viol(
                    "no-progress",
                    &[("what", what)],
                    format!(
                        "fair suffix: no progress for {} simulated seconds ({} events): {}; A: state {} ready={} delivered {}/{} unacked {} queued {}; B: state {} delivered {}/{} unacked {} queued {}",
                        STALL_USEC / 1_000_000, events, what,
                        a.conn.state_name(), a.ready_seen, a.delivered, a.sub_vital.len(), a.conn.unacked(), a.conn.queued(),
                        b.conn.state_name(), b.delivered, b.sub_vital.len(), b.conn.unacked(), b.conn.queued()
                    ),
                ));
            }
            // next event
            let mut next: Option<(u64, u64, usize)> = None; // (time, order, kind) kind: 0/1 = tick ep, 2 = delivery
            for ep in 0..2 {
                if self.s[ep].closed {
                    continue;
                }
                if let Some(d) = self.s[ep].conn.needs_tick() {
                    let due = now + d.saturating_sub(self.s[ep].cb.now);
                    let cand = (due, ep as u64, ep);
                    if next.map(|n| (cand.0, cand.1) < (n.0, n.1)).unwrap_or(true) {
                        next = Some(cand);
                    }
                }
            }
            if let Some(std::cmp::Reverse(e)) = q.peek() {
                let cand = (e.0, 10 + e.1, 2usize);
                if next.map(|n| (cand.0, cand.1) < (n.0, n.1)).unwrap_or(true) {
                    next = Some(cand);
                }
            }
            let (t, _, kind) = match next {
                Some(n) => n,
                None => {
                    // nothing in flight, no deadline, but obligations remain
                    return Some(self.viol("no-progress", &[("what", "quiescent with obligations")], format!("fair suffix: nothing in flight and no deadline although {} obligations remain", rem)));
                }
            };
            let dt = t.saturating_sub(now);
            if dt == 0 && kind < 2 {
                same_time_ticks += 1;
                if same_time_ticks > 2000 {
                    return Some(self.viol("no-progress", &[("what", "deadline does not advance")], format!("fair suffix: {} was ticked {} times at its reported deadline without the deadline moving into the future ({} obligations remain)", ["A", "B"][kind], same_time_ticks - 1, rem)));
                }
            } else if dt > 0 {
                same_time_ticks = 0;
            }
            now = t;
            for s in self.s.iter_mut() {
                s.cb.now += dt;
            }
            ctx.sim_usec += 2 * dt;
            events += 1;
            if events > 200_000 {
                return Some(self.viol("no-progress", &[("what", "event storm")], format!("fair suffix: more than {} events without settling ({} obligations remain)", events - 1, rem)));
            }
            let (w0, w1) = (self.wire[0].len(), self.wire[1].len());
            let r = if kind == 2 {
                let std::cmp::Reverse((_, _, dir, bytes)) = q.pop().unwrap();
                let to = 1 - dir;
                if self.s[to].closed {
                    None
                } else {
                    self.feed(ctx, to, &bytes)
                }
            } else {
                self.s[kind].ticks_in_suffix += 1;
                ctx.logf(|| format!("  t+{}us {}.tick()", now, ["A", "B"][kind]));
                self.api(ctx, kind, Call::Tick, |c, cb| c.tick(cb)).err()
            };
            if r.is_some() {
                return r;
            }
            let _ = (w0, w1);
            for dir in 0..2 {
                for d in std::mem::take(&mut self.wire[dir]) {
                    seq += 1;
                    q.push(std::cmp::Reverse((now + rng.range(lat_lo, lat_hi), seq, dir, d.bytes)));
                }
            }
            if let Some(v) = self.check_deadline(ctx) {
                return Some(v);
            }
            let st = self.abstract_state();
            ctx.state(st);
            // settled long enough and nothing owed: stop (keep-alives would go on forever)
            if rem == 0 && now > 3_000_000 + best_at {
                ctx.count("probe_suffix_settled");
                ctx.count_n("probe_suffix_sim_ms", now / 1000);
                return None;
            }
        }
    }
}

pub fn run_ops(prop: NetProp, case: &Case<NetCfg, NetOp>, ctx: &mut Ctx) -> Option<Violation> {
    let mut w = World::new(prop, &case.cfg);
    if prop == NetProp::C03 {
        w.record_stale_incarnation(ctx);
    }
    for op in &case.ops {
        if let Some(v) = w.step(ctx, op) {
            if is_sentinel(&v) {
                return None;
            }
            return Some(v);
        }
        if w.in_suffix {
            break;
        }
    }
    ctx.t(w.s[0].delivered as u64);
    ctx.t(w.s[1].delivered as u64);
    None
}
