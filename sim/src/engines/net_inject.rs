//! C03: the adversary. Builds connection-oriented datagrams that do not carry
//! the token the target endpoint has fixed, feeds them, and checks that the
//! feed is a no-op (non-interference on the complete endpoint state).

use super::net::*;
use super::netconn::*;
use crate::core::*;
use crate::prng::{mix, Prng};
use libtw2_huffman::instances::TEEWORLDS as HUFFMAN;
use libtw2_net::protocol as p6;
use libtw2_net::protocol7 as p7;

/// Harness-own encoders (doc/ + Appendix D of DESIGN.md), independent of the library writer.
pub fn v6_make(flags: u8, ack: u16, num_chunks: u8, body: &[u8], token: Option<[u8; 4]>, compress: bool) -> Vec<u8> {
    let mut payload = body.to_vec();
    if let Some(t) = token {
        payload.extend_from_slice(&t);
    }
    let mut flags = flags & 0x7;
    if compress {
        payload = HUFFMAN.compress_into_vec(&payload);
        flags |= 8;
    }
    let mut v = vec![(flags << 4) | ((ack >> 8) & 3) as u8, (ack & 0xff) as u8, num_chunks];
    v.extend_from_slice(&payload);
    v
}

pub fn v7_make(flags: u8, ack: u16, num_chunks: u8, token: [u8; 4], body: &[u8], compress: bool) -> Vec<u8> {
    let mut flags = flags & 0xb;
    let mut payload = body.to_vec();
    if compress {
        payload = HUFFMAN.compress_into_vec(&payload);
        flags |= 4;
    }
    let mut v = vec![(flags << 2) | ((ack >> 8) & 3) as u8, (ack & 0xff) as u8, num_chunks];
    v.extend_from_slice(&token);
    v.extend_from_slice(&payload);
    v
}

#[derive(Debug, PartialEq)]
pub enum TokenOf {
    Connless,
    None,
    Some([u8; 4]),
}

/// Which token does this datagram carry? (harness-own decoding)
pub fn token_of(proto: Proto, d: &[u8]) -> TokenOf {
    if proto.is_v7() {
        if d.is_empty() {
            return TokenOf::None;
        }
        if d[0] & 0x20 != 0 {
            return TokenOf::Connless;
        }
        if d.len() < 7 {
            return TokenOf::None;
        }
        TokenOf::Some([d[3], d[4], d[5], d[6]])
    } else {
        if d.len() < 3 {
            return TokenOf::None;
        }
        if d[0] & 0x20 != 0 {
            return TokenOf::Connless;
        }
        let payload: Vec<u8> = if d[0] & 0x80 != 0 {
            match HUFFMAN.decompress_into_vec(&d[3..]) {
                Ok(p) => p,
                Err(_) => return TokenOf::None,
            }
        } else {
            d[3..].to_vec()
        };
        if payload.len() < 4 {
            return TokenOf::None;
        }
        let t = &payload[payload.len() - 4..];
        TokenOf::Some([t[0], t[1], t[2], t[3]])
    }
}

/// Re-encodes a datagram with another token (same flags, same body).
fn retoken(proto: Proto, d: &[u8], t: [u8; 4]) -> Option<Vec<u8>> {
    if proto.is_v7() {
        if d.len() < 7 {
            return None;
        }
        let mut v = d.to_vec();
        v[3..7].copy_from_slice(&t);
        Some(v)
    } else {
        if d.len() < 3 {
            return None;
        }
        let compressed = d[0] & 0x80 != 0;
        let mut payload = if compressed { HUFFMAN.decompress_into_vec(&d[3..]).ok()? } else { d[3..].to_vec() };
        if payload.len() < 4 {
            return None;
        }
        let n = payload.len();
        payload[n - 4..].copy_from_slice(&t);
        let mut v = d[..3].to_vec();
        if compressed {
            v.extend_from_slice(&HUFFMAN.compress_into_vec(&payload));
        } else {
            v.extend_from_slice(&payload);
        }
        Some(v)
    }
}

impl<'a> World<'a> {
    /// Incarnation #1: a short earlier connection between fresh endpoints with
    /// other tokens; everything it put on the wire is kept for stale replays.
    pub fn record_stale_incarnation(&mut self, _ctx: &mut Ctx) {
        let cfg = NetCfg {
            proto: self.cfg.proto,
            seed: mix(self.cfg.seed, 0x5741_4c45, 1),
            window: 400,
            age: 400,
            weak_rng: [0, 0],
            profile: "stale-incarnation".into(),
            stateless_accept: false,
            alien_token: 0,
        };
        let mut w = World::new(NetProp::C03, &cfg);
        w.wirelog = Some([Vec::new(), Vec::new()]);
        let mut c = Ctx::new(false);
        let mut ops = vec![NetOp::Connect];
        for _ in 0..4 {
            ops.push(NetOp::Deliver { dir: 0, pick: 0 });
            ops.push(NetOp::Deliver { dir: 1, pick: 0 });
        }
        for i in 0..3u32 {
            ops.push(NetOp::Send { ep: 0, vital: i != 1, len: 8 + 40 * i, fill: i as u8, tag: 9000 + i });
        }
        ops.push(NetOp::Flush { ep: 0 });
        ops.push(NetOp::Deliver { dir: 0, pick: 0 });
        ops.push(NetOp::Send { ep: 1, vital: true, len: 12, fill: 1, tag: 9010 });
        ops.push(NetOp::Send { ep: 1, vital: true, len: 300, fill: 0, tag: 9011 });
        ops.push(NetOp::Flush { ep: 1 });
        ops.push(NetOp::Deliver { dir: 1, pick: 0 });
        ops.push(NetOp::Advance { ep: 2, usec: 600_000 });
        ops.push(NetOp::Tick { ep: 0 });
        ops.push(NetOp::Tick { ep: 1 });
        ops.push(NetOp::Advance { ep: 2, usec: 1_100_000 });
        ops.push(NetOp::Tick { ep: 1 });
        ops.push(NetOp::Disconnect { ep: 0, reason_len: 5, tag: 9020 });
        ops.push(NetOp::Disconnect { ep: 1, reason_len: 0, tag: 9021 });
        for op in &ops {
            if w.step(&mut c, op).is_some() {
                break;
            }
        }
        if let Some(l) = w.wirelog.take() {
            self.stale = l;
        }
    }

    fn other_token(&self, ep: usize, expected: [u8; 4], r: &mut Prng) -> [u8; 4] {
        let mut t = match r.below(7) {
            0 => [0xff; 4],
            1 => [0; 4],
            2 => {
                let mut t = expected;
                t[r.usize_below(4)] ^= 1 << r.below(8);
                t
            }
            3 => self.s[ep].conn.their_token().unwrap_or([0x12, 0x34, 0x56, 0x78]),
            4 => {
                let mut t = expected;
                t.reverse();
                t
            }
            _ => {
                let mut t = [0u8; 4];
                r.fill(&mut t);
                t
            }
        };
        if t == expected {
            t[0] ^= 0x80;
        }
        t
    }

    fn build_foreign(&mut self, ctx: &mut Ctx, ep: usize, kind: u8, salt: u64, expected: [u8; 4]) -> Option<Vec<u8>> {
        let proto = self.cfg.proto;
        let v7 = proto.is_v7();
        let mut r = Prng::new(mix(self.cfg.seed, salt, 0x61_64_76));
        let peer = 1 - ep;
        let wrong = self.other_token(ep, expected, &mut r);
        // plausible sequence numbers: next expected vital, and an ack that acknowledges everything
        let next_seq = ((self.s[peer].delivered + 1) % 1024) as u16;
        let ack_all = (self.s[ep].sub_vital.len() % 1024) as u16;
        let kind = kind % 8;
        ctx.count(match kind {
            0 => "probe_inject_stale",
            1 => "probe_inject_retokened_inflight",
            2 => "probe_inject_control",
            3 => "probe_inject_chunks",
            4 => "probe_inject_tokenless",
            5 => "probe_inject_truncated",
            6 => "probe_inject_mutated",
            _ => "probe_inject_random",
        });
        let control = |r: &mut Prng, tok: Option<[u8; 4]>| -> Vec<u8> {
            if v7 {
                let which = r.below(5);
                let mut body = match which {
                    0 => vec![0u8],
                    1 => {
                        let mut b = vec![1u8];
                        b.extend_from_slice(&r.bytes(4));
                        b
                    }
                    2 => vec![2u8],
                    3 => {
                        let mut b = vec![4u8];
                        b.extend_from_slice(b"bye");
                        b.push(0);
                        b
                    }
                    _ => {
                        let mut b = vec![5u8];
                        b.extend_from_slice(&r.bytes(4));
                        b
                    }
                };
                let t = tok.unwrap_or([0xff; 4]);
                if which == 4 && r.chance(1, 3) {
                    // a token request padded to (about) the size the protocol demands, sent Huffman-compressed:
                    // a few dozen bytes on the wire
                    let t = if r.chance(1, 2) { [0xff; 4] } else { t };
                    body.resize(*r.pick(&[511usize, 512, 512, 513, 600]), 0);
                    return v7_make(1, ack_all, 0, t, &body, true);
                }
                if which == 4 && t == [0xff; 4] {
                    body.resize(512, 0);
                }
                v7_make(1, ack_all, 0, t, &body, false)
            } else {
                let which = r.below(5) as u8;
                let mut body = vec![which];
                if (which == 1 || which == 2) && tok.is_some() {
                    body.extend_from_slice(b"TKEN");
                }
                if which == 4 {
                    body.extend_from_slice(b"bye");
                    body.push(0);
                }
                v6_make(1, ack_all, 0, &body, tok, false)
            }
        };
        let chunks = |r: &mut Prng, tok: Option<[u8; 4]>| -> Vec<u8> {
            let n = 1 + r.usize_below(3);
            let mut body: Vec<u8> = Vec::new();
            for i in 0..n {
                let n = r.usize_below(40);
                let data = r.bytes(n);
                let vital = if r.chance(3, 4) { Some(((next_seq as usize + i) as u16 % 1024, r.chance(1, 2))) } else { None };
                let mut tmp: Vec<u8> = Vec::with_capacity(64);
                if v7 {
                    let _ = p7::write_chunk(&data, vital, &mut tmp);
                } else {
                    let _ = p6::write_chunk(&data, vital, &mut tmp);
                }
                body.extend_from_slice(&tmp);
            }
            let resend = r.chance(1, 3);
            let compress = r.chance(1, 3);
            if v7 {
                v7_make(if resend { 2 } else { 0 }, ack_all, n as u8, tok.unwrap_or([0xff; 4]), &body, compress)
            } else {
                v6_make(if resend { 4 } else { 0 }, ack_all, n as u8, &body, tok, compress)
            }
        };
        let inflight = |w: &World, r: &mut Prng| -> Option<Vec<u8>> {
            let q = &w.wire[peer];
            if q.is_empty() {
                None
            } else {
                Some(q[r.usize_below(q.len())].bytes.clone())
            }
        };
        let d = match kind {
            0 => {
                let pool = if r.chance(4, 5) { &self.stale[peer] } else { &self.stale[ep] };
                if pool.is_empty() {
                    return None;
                }
                pool[r.usize_below(pool.len())].clone()
            }
            1 => {
                let d = inflight(self, &mut r)?;
                retoken(proto, &d, wrong)?
            }
            2 => control(&mut r, Some(wrong)),
            3 => chunks(&mut r, Some(wrong)),
            4 => {
                if v7 {
                    // 0.7 always has a token field; "none at all" = TOKEN_NONE
                    if r.chance(1, 2) { control(&mut r, None) } else { chunks(&mut r, None) }
                } else if r.chance(1, 2) {
                    control(&mut r, None)
                } else {
                    chunks(&mut r, None)
                }
            }
            5 => {
                let base = match inflight(self, &mut r).and_then(|d| retoken(proto, &d, wrong)) {
                    Some(d) => d,
                    None => control(&mut r, Some(wrong)),
                };
                let n = r.usize_below(base.len() + 1);
                base[..n].to_vec()
            }
            6 => {
                let mut base = match inflight(self, &mut r).and_then(|d| retoken(proto, &d, wrong)) {
                    Some(d) => d,
                    None => chunks(&mut r, Some(wrong)),
                };
                for _ in 0..1 + r.usize_below(3) {
                    if base.is_empty() {
                        break;
                    }
                    let i = if r.chance(1, 2) { r.usize_below(base.len().min(3)) } else { r.usize_below(base.len()) };
                    // keep the token bytes of 0.7 wrong: do not touch them
                    if v7 && (3..7).contains(&i) {
                        continue;
                    }
                    base[i] ^= 1 << r.below(8);
                }
                base
            }
            _ => {
                // mostly short; sometimes at the datagram limit, at the size of the scratch buffer handed to
                // feed(), or far beyond; sometimes a repeated byte behind a compression flag (unpacks to more
                // than any buffer holds)
                let n = match r.below(12) {
                    0 => 1380 + r.usize_below(40),
                    1 => 2030 + r.usize_below(40),
                    2 => *r.pick(&[5000usize, 70000]),
                    _ => r.usize_below(60),
                };
                let mut d = r.bytes(n);
                if n > 1000 && r.chance(1, 2) {
                    let fillb = *r.pick(&[0u8, 0xff, 0x55]);
                    let z = HUFFMAN.compress_into_vec(&vec![fillb; n]);
                    d = if v7 { vec![0x10, 0, 0, wrong[0], wrong[1], wrong[2], wrong[3]] } else { vec![0x80, 0, 0] };
                    d.extend_from_slice(&z);
                }
                if !d.is_empty() {
                    // connected (not connectionless) header
                    d[0] &= !0x20;
                }
                d
            }
        };
        Some(d)
    }

    /// C04: a datagram that carries the token `ep` expects (or, where no token is
    /// fixed yet, any plausible one). Authenticated garbage is still a valid input
    /// of `feed`: no panic, and whatever is sent in response passes the wire tap.
    /// From here on the delivery model of the session is void (`forged`).
    pub(super) fn forge(&mut self, ctx: &mut Ctx, ep: usize, kind: u8, salt: u64) -> Option<Violation> {
        if self.s[ep].closed || self.prop != NetProp::C04 {
            return None;
        }
        // roles stay what the tap expects: the connecting side is only attacked once it has connected
        if ep == 0 && !self.s[0].called_connect {
            return None;
        }
        let proto = self.cfg.proto;
        let v7 = proto.is_v7();
        let mut r = Prng::new(mix(self.cfg.seed, salt, 0x66_6f_72));
        let peer = 1 - ep;
        let tok: Option<[u8; 4]> = match self.s[ep].conn.expected_token() {
            Some(t) => Some(t),
            None => {
                if v7 {
                    Some(if r.chance(1, 2) { [0xff; 4] } else { let b = r.bytes(4); [b[0], b[1], b[2], b[3]] })
                } else if proto == Proto::V6Token && r.chance(1, 2) {
                    let b = r.bytes(4);
                    Some([b[0], b[1], b[2], b[3]])
                } else {
                    None
                }
            }
        };
        let seq_near = |w: &World, r: &mut Prng| -> u16 {
            match r.below(4) {
                0 => ((w.s[peer].delivered + 1) % 1024) as u16,
                1 => ((w.s[peer].delivered + r.usize_below(4)) % 1024) as u16,
                2 => *r.pick(&[0u16, 1, 511, 512, 513, 1022, 1023]),
                _ => r.below(1024) as u16,
            }
        };
        let ack_any = |w: &World, r: &mut Prng| -> u16 {
            match r.below(4) {
                0 => (w.s[ep].sub_vital.len() % 1024) as u16,
                1 => ((w.s[ep].sub_vital.len() + 1024 - r.usize_below(6)) % 1024) as u16,
                2 => ((w.s[ep].sub_vital.len() + 1 + r.usize_below(6)) % 1024) as u16,
                _ => r.below(1024) as u16,
            }
        };
        let kind = kind % 8;
        ctx.count(match kind {
            0 => "probe_forge_control",
            1 => "probe_forge_chunks",
            2 => "probe_forge_mutated_inflight",
            3 => "probe_forge_truncated_inflight",
            4 => "probe_forge_random_body",
            5 => "probe_forge_connless",
            6 => "probe_forge_reflected",
            _ => "probe_forge_count_mismatch",
        });
        let inflight = |w: &World, r: &mut Prng, dir: usize| -> Option<Vec<u8>> {
            let q = &w.wire[dir];
            if q.is_empty() {
                None
            } else {
                Some(q[r.usize_below(q.len())].bytes.clone())
            }
        };
        let d: Vec<u8> = match kind {
            0 => {
                let ack = ack_any(self, &mut r);
                if v7 {
                    let which = *r.pick(&[0u8, 1, 2, 3, 4, 5, 6, 255]);
                    let mut body = vec![which];
                    match which {
                        1 | 5 => body.extend_from_slice(&r.bytes(4)),
                        4 => {
                            if r.chance(1, 2) {
                                let n = r.usize_below(140);
                                body.extend((0..n).map(|_| 1 + r.below(255) as u8));
                                if r.chance(3, 4) {
                                    body.push(0);
                                }
                            }
                        }
                        _ => {}
                    }
                    if which == 5 && r.chance(1, 2) {
                        body.resize(512 + r.usize_below(3), 0);
                    }
                    if r.chance(1, 6) {
                        let n = r.usize_below(20);
                        body.extend_from_slice(&r.bytes(n));
                    }
                    v7_make(1 | if r.chance(1, 5) { 2 } else { 0 }, ack, r.below(3) as u8, tok.unwrap(), &body, r.chance(1, 5))
                } else {
                    let which = *r.pick(&[0u8, 1, 2, 3, 4, 5, 255]);
                    let mut body = vec![which];
                    if (which == 1 || which == 2) && r.chance(2, 3) {
                        body.extend_from_slice(b"TKEN");
                        if r.chance(1, 2) {
                            body.extend_from_slice(&r.bytes(4));
                        }
                    }
                    if which == 4 && r.chance(1, 2) {
                        let n = r.usize_below(140);
                        body.extend((0..n).map(|_| 1 + r.below(255) as u8));
                        if r.chance(3, 4) {
                            body.push(0);
                        }
                    }
                    if r.chance(1, 6) {
                        let n = r.usize_below(20);
                        body.extend_from_slice(&r.bytes(n));
                    }
                    v6_make(1 | if r.chance(1, 5) { 4 } else { 0 }, ack, r.below(3) as u8, &body, tok, r.chance(1, 5))
                }
            }
            1 | 7 => {
                let n = r.usize_below(6);
                let mut body: Vec<u8> = Vec::new();
                let first = seq_near(self, &mut r);
                for i in 0..n {
                    let len = *r.pick(&[0usize, 1, 5, 30, 200, 1000]);
                    let len = r.usize_below(len + 1);
                    let data = r.bytes(len);
                    let vital = if r.chance(3, 4) { Some(((first as usize + i) as u16 % 1024, r.chance(1, 3))) } else { None };
                    let mut tmp: Vec<u8> = Vec::with_capacity(1100);
                    if v7 {
                        let _ = p7::write_chunk(&data, vital, &mut tmp);
                    } else {
                        let _ = p6::write_chunk(&data, vital, &mut tmp);
                    }
                    if body.len() + tmp.len() < 1380 {
                        body.extend_from_slice(&tmp);
                    }
                }
                let announced = if kind == 7 { r.below(256) as u8 } else { n as u8 };
                if kind == 7 && r.chance(1, 3) && !body.is_empty() {
                    let k = r.usize_below(body.len());
                    body.truncate(k);
                }
                let ack = ack_any(self, &mut r);
                let resend = r.chance(1, 3);
                let compress = r.chance(1, 3);
                if v7 {
                    v7_make(if resend { 2 } else { 0 }, ack, announced, tok.unwrap(), &body, compress)
                } else {
                    v6_make(if resend { 4 } else { 0 }, ack, announced, &body, tok, compress)
                }
            }
            2 | 3 => {
                let mut base = match inflight(self, &mut r, peer) {
                    Some(d) => d,
                    None => return None,
                };
                if kind == 3 {
                    let n = r.usize_below(base.len() + 1);
                    base.truncate(n);
                    // 0.6 carries the token at the end: put it back so that the datagram stays authenticated
                    if !v7 {
                        if let (Some(t), false) = (tok, base.len() >= 3 && base[0] & 0x80 != 0) {
                            if base.len() >= 3 && base[0] & 0x20 == 0 {
                                base.extend_from_slice(&t);
                            }
                        }
                    }
                } else {
                    for _ in 0..1 + r.usize_below(3) {
                        if base.is_empty() {
                            break;
                        }
                        let i = if r.chance(1, 2) { r.usize_below(base.len().min(3)) } else { r.usize_below(base.len()) };
                        if v7 && (3..7).contains(&i) {
                            continue;
                        }
                        if !v7 && tok.is_some() && base[0] & 0x80 == 0 && i + 4 >= base.len() {
                            continue;
                        }
                        base[i] ^= 1 << r.below(8);
                    }
                }
                base
            }
            4 => {
                // mostly short; sometimes around the datagram limit, around the 2048-byte scratch buffer the
                // application hands to feed(), or far beyond both; sometimes one repeated byte (compresses to
                // almost nothing: a small datagram that unpacks to more than any buffer holds)
                let n = match r.below(10) {
                    0 => 1380 + r.usize_below(40),
                    1 => 2030 + r.usize_below(40),
                    2 => *r.pick(&[5000usize, 20000, 70000]),
                    _ => r.usize_below(80),
                };
                let body = if r.chance(1, 3) { vec![*r.pick(&[0u8, 0xff, b'a', 0x80]); n] } else { r.bytes(n) };
                if n > 1000 {
                    ctx.count("probe_forge_oversize");
                }
                let flags = r.below(16) as u8;
                let ack = r.below(1024) as u16;
                if v7 {
                    v7_make(flags & !0x8, ack, r.below(256) as u8, tok.unwrap(), &body, r.chance(1, 4))
                } else {
                    v6_make(flags & !0x2, ack, r.below(256) as u8, &body, tok, r.chance(1, 4))
                }
            }
            5 => {
                let n = *r.pick(&[0usize, 1, 8, 100, 1300]);
                let n = r.usize_below(n + 1);
                let body = r.bytes(n);
                if v7 {
                    // connless 0.7: version 1, own token, their token
                    let own = self.s[ep].conn.expected_token().unwrap_or([0xff; 4]);
                    let their = self.s[ep].conn.their_token().unwrap_or([0xff; 4]);
                    let (a, b) = match r.below(4) {
                        0 => (own, their),
                        1 => (their, own),
                        2 => (own, [0xff; 4]),
                        _ => ([0xff; 4], their),
                    };
                    let mut v = vec![0x20 | if r.chance(1, 8) { r.below(4) as u8 } else { 1 }];
                    v.extend_from_slice(&a);
                    v.extend_from_slice(&b);
                    v.extend_from_slice(&body);
                    v
                } else {
                    let mut v = vec![0xffu8; 6];
                    if r.chance(1, 4) {
                        v[0] = 0x20 | r.below(16) as u8;
                    }
                    v.extend_from_slice(&body);
                    v
                }
            }
            _ => {
                // reflection: something this endpoint sent itself comes back
                match inflight(self, &mut r, ep) {
                    Some(d) => d,
                    None => return None,
                }
            }
        };
        let state = self.s[ep].conn.state_name();
        ctx.count(match state {
            "Online" => "probe_forge_state_online",
            "Unconnected" => "probe_forge_state_unconnected",
            _ => "probe_forge_state_handshake",
        });
        ctx.oracle_event = true;
        ctx.fault_inflight = true;
        ctx.count("fault_forged_datagram");
        ctx.logf(|| format!("forger feeds {} (state {}, token {:02x?}) {} bytes: {}", ["A", "B"][ep], state, tok, d.len(), hex(&d)));
        self.forged = true;
        self.feed(ctx, ep, &d)
    }

    pub(super) fn inject(&mut self, ctx: &mut Ctx, ep: usize, kind: u8, salt: u64) -> Option<Violation> {
        if self.s[ep].closed {
            return None;
        }
        let expected = match self.s[ep].conn.expected_token() {
            Some(t) => t,
            None => {
                ctx.count("probe_inject_skipped_no_token_fixed");
                return None;
            }
        };
        let d = match self.build_foreign(ctx, ep, kind, salt, expected) {
            Some(d) => d,
            None => return None,
        };
        let state = self.s[ep].conn.state_name();
        match token_of(self.cfg.proto, &d) {
            TokenOf::Connless => {
                ctx.count("probe_inject_skipped_connless");
                return None;
            }
            TokenOf::Some(t) if t == expected => {
                ctx.count("probe_inject_skipped_carries_token");
                return None;
            }
            TokenOf::Some(t) => {
                // the protocol's explicit exception: unauthenticated token request to a waiting 0.7 acceptor
                let ctrl_byte = if d.len() >= 8 && d[0] & 0x10 != 0 { HUFFMAN.decompress_into_vec(&d[7..]).ok().and_then(|p| p.first().copied()) } else { d.get(7).copied() };
                // (the protocol defines that request as a datagram of at least 519 bytes ON THE WIRE — its defence
                // against being used as an amplifier; a shorter one that merely unpacks to that size is not it)
                if self.cfg.proto.is_v7() && state == "PendingConnect" && t == [0xff; 4] && d.len() >= 519 && d[0] & 0x04 != 0 && ctrl_byte == Some(5) {
                    ctx.count("probe_inject_skipped_v7_token_request_exception");
                    return None;
                }
            }
            TokenOf::None => {}
        }
        ctx.count("probe_inject_fed");
        ctx.count(match state {
            "Online" => "probe_inject_state_online",
            "Pending" => "probe_inject_state_pending",
            "Connecting" => "probe_inject_state_connecting",
            "Token" => "probe_inject_state_token",
            "PendingConnect" => "probe_inject_state_pendingconnect",
            _ => "probe_inject_state_other",
        });
        ctx.oracle_event = true;
        ctx.fault_inflight = true;
        ctx.count("fault_foreign_datagram");
        let f0 = self.s[ep].conn.fingerprint();
        let n0 = self.s[ep].conn.needs_tick();
        let draws0 = self.s[ep].cb.random_draws;
        ctx.logf(|| format!("adversary feeds {} (state {}, token {:02x?}) {} bytes: {}", ["A", "B"][ep], state, expected, d.len(), hex(&d)));
        self.injecting = true;
        let unacked = self.s[ep].conn.unacked();
        let r = self.api(ctx, ep, Call::Feed, |c, cb| c.feed(cb, &d));
        self.injecting = false;
        let out = match r {
            Err(v) => return Some(v),
            Ok(o) => o,
        };
        let who = ["A", "B"][ep];
        if !out.events.is_empty() {
            return Some(self.viol("foreign-datagram-produced-event", &[("state", state)], format!("{} in state {} handed {:?} to the application for a datagram without its token: {}", who, state, out.events.iter().map(|e| format!("{:?}", e).chars().take(60).collect::<String>()).collect::<Vec<_>>(), hex(&d))));
        }
        if self.s[ep].cb.random_draws != draws0 {
            return Some(self.viol("foreign-datagram-drew-randomness", &[("state", state)], format!("{} in state {} drew randomness for a datagram without its token", who, state)));
        }
        let f1 = self.s[ep].conn.fingerprint();
        if f1 != f0 || self.s[ep].conn.needs_tick() != n0 {
            let what = if self.s[ep].conn.unacked() != unacked { "unacknowledged chunks dropped" } else if self.s[ep].conn.state_name() != state { "state machine moved" } else { "state changed" };
            return Some(self.viol(
                "foreign-datagram-changed-state",
                &[("state", state), ("what", what)],
                format!("{} in state {}: {} after a datagram without its token ({}); before: {} after: {}", who, state, what, hex(&d), f0.chars().take(300).collect::<String>(), f1.chars().take(300).collect::<String>()),
            ));
        }
        None
    }
}
