//! Seam implementations for the connection layer: the simulated Callback
//! (clock, egress, randomness) and a thin uniform wrapper over the two real
//! `Connection` types (0.6 and 0.7).

use crate::core::BUDGET_MARKER;
use crate::prng::Prng;
use arrayvec::ArrayVec;
use libtw2_net::connection as c6;
use libtw2_net::connection7 as c7;
use libtw2_net::Timestamp;
use serde::{Deserialize, Serialize};

#[derive(Clone, Copy, Debug, PartialEq, Eq, Serialize, Deserialize, PartialOrd, Ord)]
pub enum Proto {
    V6Token,
    V6NoToken,
    V7,
}

impl Proto {
    pub fn name(self) -> &'static str {
        match self {
            Proto::V6Token => "0.6+token",
            Proto::V6NoToken => "0.6",
            Proto::V7 => "0.7",
        }
    }
    pub fn is_v7(self) -> bool {
        self == Proto::V7
    }
}

pub const CALL_BUDGET: u32 = 50_000;

/// The only clock, egress and randomness the endpoint under test sees.
pub struct SimCb {
    pub now: u64,
    /// datagrams handed to `send` during the current API call: (bytes, send() returned Ok)
    pub out: Vec<(Vec<u8>, bool)>,
    /// the next n `send` calls fail (ENOBUFS/EAGAIN of a UDP socket)
    pub send_err_left: u32,
    pub rng: Prng,
    /// the first n draws of `secure_random` return a reserved pattern
    pub weak_left: u8,
    pub weak_kind: u8,
    pub calls: u32,
    pub random_draws: u32,
    pub send_errs_fired: u32,
    pub weak_fired: u32,
}

impl SimCb {
    pub fn new(rng: Prng, weak_left: u8, weak_kind: u8) -> SimCb {
        SimCb {
            now: 1_000_000,
            out: Vec::new(),
            send_err_left: 0,
            rng,
            weak_left,
            weak_kind,
            calls: 0,
            random_draws: 0,
            send_errs_fired: 0,
            weak_fired: 0,
        }
    }
    #[inline]
    fn tick_budget(&mut self, what: &str) {
        self.calls += 1;
        if self.calls > CALL_BUDGET {
            panic!("{} callback budget exceeded inside one API call ({} x{})", BUDGET_MARKER, what, self.calls);
        }
    }
    fn do_random(&mut self, buffer: &mut [u8]) {
        self.tick_budget("secure_random()");
        self.random_draws += 1;
        if self.weak_left > 0 {
            self.weak_left -= 1;
            self.weak_fired += 1;
            // every sequence of reserved patterns (all-ones / all-zeroes) is reachable: bit k of weak_kind decides draw k
            let b = match (self.weak_kind >> (self.weak_left % 8)) & 1 {
                0 => 0xff,
                _ => 0x00,
            };
            for x in buffer.iter_mut() {
                *x = b;
            }
        } else {
            self.rng.fill(buffer);
        }
    }
    fn do_send(&mut self, data: &[u8]) -> Result<(), ()> {
        self.tick_budget("send()");
        if self.send_err_left > 0 {
            self.send_err_left -= 1;
            self.send_errs_fired += 1;
            self.out.push((data.to_vec(), false));
            Err(())
        } else {
            self.out.push((data.to_vec(), true));
            Ok(())
        }
    }
    fn do_time(&mut self) -> Timestamp {
        self.tick_budget("time()");
        Timestamp::from_usecs_since_epoch(self.now)
    }
}

impl c6::Callback for SimCb {
    type Error = ();
    fn secure_random(&mut self, buffer: &mut [u8]) {
        self.do_random(buffer)
    }
    fn send(&mut self, buffer: &[u8]) -> Result<(), ()> {
        self.do_send(buffer)
    }
    fn time(&mut self) -> Timestamp {
        self.do_time()
    }
}

impl c7::Callback for SimCb {
    type Error = ();
    fn secure_random(&mut self, buffer: &mut [u8]) {
        self.do_random(buffer)
    }
    fn send(&mut self, buffer: &[u8]) -> Result<(), ()> {
        self.do_send(buffer)
    }
    fn time(&mut self) -> Timestamp {
        self.do_time()
    }
}

#[derive(Clone, Debug, PartialEq, Eq, PartialOrd, Ord)]
pub enum Ev {
    Connless(Vec<u8>),
    Chunk(Vec<u8>, bool),
    Ready,
    Disconnect(Vec<u8>),
}

#[derive(Clone, Copy, Debug, PartialEq, Eq)]
pub enum SendRes {
    Ok,
    CallbackErr,
    TooLong,
}

pub struct FeedOut {
    pub events: Vec<Ev>,
    pub warnings: Vec<String>,
    pub cb_err: bool,
}

pub enum AnyConn {
    V6(c6::Connection),
    V7(c7::Connection),
}

macro_rules! both {
    ($self:expr, $c:ident => $e:expr) => {
        match $self {
            AnyConn::V6($c) => $e,
            AnyConn::V7($c) => $e,
        }
    };
}

impl AnyConn {
    pub fn new(proto: Proto) -> AnyConn {
        if proto.is_v7() {
            AnyConn::V7(c7::Connection::new())
        } else {
            AnyConn::V6(c6::Connection::new())
        }
    }
    /// 0.6 stateless accept: an acceptor created directly in the online state for a token it handed out earlier.
    pub fn new_accept_token(cb: &mut SimCb, token: [u8; 4]) -> AnyConn {
        AnyConn::V6(c6::Connection::new_accept_token(cb, libtw2_net::protocol::Token(token)))
    }
    pub fn connect(&mut self, cb: &mut SimCb) -> Result<(), ()> {
        both!(self, c => c.connect(cb))
    }
    pub fn disconnect(&mut self, cb: &mut SimCb, reason: &[u8]) -> Result<(), ()> {
        both!(self, c => c.disconnect(cb, reason))
    }
    pub fn reset(&mut self) {
        both!(self, c => c.reset())
    }
    pub fn is_unconnected(&self) -> bool {
        both!(self, c => c.is_unconnected())
    }
    pub fn flush(&mut self, cb: &mut SimCb) -> Result<(), ()> {
        both!(self, c => c.flush(cb))
    }
    pub fn tick(&mut self, cb: &mut SimCb) -> Result<(), ()> {
        both!(self, c => c.tick(cb))
    }
    pub fn send(&mut self, cb: &mut SimCb, data: &[u8], vital: bool) -> SendRes {
        match self {
            AnyConn::V6(c) => match c.send(cb, data, vital) {
                Ok(()) => SendRes::Ok,
                Err(c6::Error::TooLongData) => SendRes::TooLong,
                Err(c6::Error::Callback(())) => SendRes::CallbackErr,
            },
            AnyConn::V7(c) => match c.send(cb, data, vital) {
                Ok(()) => SendRes::Ok,
                Err(c7::Error::TooLongData) => SendRes::TooLong,
                Err(c7::Error::Callback(())) => SendRes::CallbackErr,
            },
        }
    }
    pub fn send_connless(&mut self, cb: &mut SimCb, data: &[u8]) -> SendRes {
        match self {
            AnyConn::V6(c) => match c.send_connless(cb, data) {
                Ok(()) => SendRes::Ok,
                Err(c6::Error::TooLongData) => SendRes::TooLong,
                Err(c6::Error::Callback(())) => SendRes::CallbackErr,
            },
            AnyConn::V7(c) => match c.send_connless(cb, data) {
                Ok(()) => SendRes::Ok,
                Err(c7::Error::TooLongData) => SendRes::TooLong,
                Err(c7::Error::Callback(())) => SendRes::CallbackErr,
            },
        }
    }
    /// Deadline in microseconds of the endpoint's clock, if any.
    pub fn needs_tick(&self) -> Option<u64> {
        both!(self, c => c.needs_tick().to_opt().map(|t| t.as_usecs_since_epoch()))
    }
    /// Feeds one datagram and drains the event iterator (as the API requires).
    pub fn feed(&mut self, cb: &mut SimCb, data: &[u8]) -> FeedOut {
        let mut buf: ArrayVec<[u8; 2048]> = ArrayVec::new();
        match self {
            AnyConn::V6(c) => {
                let mut warn: Vec<c6::Warning> = Vec::new();
                let (it, res) = c.feed(cb, &mut warn, data, &mut buf);
                let events = it
                    .map(|e| match e {
                        c6::ReceiveChunk::Connless(d) => Ev::Connless(d.to_vec()),
                        c6::ReceiveChunk::Connected(d, v) => Ev::Chunk(d.to_vec(), v),
                        c6::ReceiveChunk::Ready => Ev::Ready,
                        c6::ReceiveChunk::Disconnect(r) => Ev::Disconnect(r.to_vec()),
                    })
                    .collect();
                FeedOut {
                    events,
                    warnings: warn.iter().map(|w| format!("{:?}", w)).collect(),
                    cb_err: res.is_err(),
                }
            }
            AnyConn::V7(c) => {
                let mut warn: Vec<c7::Warning> = Vec::new();
                let (it, res) = c.feed(cb, &mut warn, data, &mut buf);
                let events = it
                    .map(|e| match e {
                        c7::ReceiveChunk::Connless(d) => Ev::Connless(d.to_vec()),
                        c7::ReceiveChunk::Connected(d, v) => Ev::Chunk(d.to_vec(), v),
                        c7::ReceiveChunk::Ready => Ev::Ready,
                        c7::ReceiveChunk::Disconnect(r) => Ev::Disconnect(r.to_vec()),
                    })
                    .collect();
                FeedOut {
                    events,
                    warnings: warn.iter().map(|w| format!("{:?}", w)).collect(),
                    cb_err: res.is_err(),
                }
            }
        }
    }
    // --- verification hooks (cfg(libtw2_verif) in /repo) ---
    pub fn fingerprint(&self) -> String {
        both!(self, c => c.verif_fingerprint())
    }
    pub fn state_name(&self) -> &'static str {
        both!(self, c => c.verif_state_name())
    }
    pub fn unacked(&self) -> usize {
        both!(self, c => c.verif_unacked())
    }
    pub fn queued(&self) -> usize {
        both!(self, c => c.verif_queued())
    }
    pub fn verif_clone(&self) -> AnyConn {
        match self {
            AnyConn::V6(c) => AnyConn::V6(c.verif_clone()),
            AnyConn::V7(c) => AnyConn::V7(c.verif_clone()),
        }
    }
    /// The token every incoming connection-oriented datagram must carry, if fixed.
    /// 0.6: `Some(t)` only when the DDNet token extension is in use.
    pub fn expected_token(&self) -> Option<[u8; 4]> {
        match self {
            AnyConn::V6(c) => c.verif_expected_token().and_then(|t| t),
            AnyConn::V7(c) => c.verif_expected_token(),
        }
    }
    /// 0.6 only: has the endpoint fixed the token mode (with or without token)?
    pub fn token_mode_fixed(&self) -> Option<bool> {
        match self {
            AnyConn::V6(c) => c.verif_expected_token().map(|t| t.is_some()),
            AnyConn::V7(_) => Some(true),
        }
    }
    pub fn their_token(&self) -> Option<[u8; 4]> {
        match self {
            AnyConn::V6(c) => c.verif_expected_token().and_then(|t| t),
            AnyConn::V7(c) => c.verif_their_token(),
        }
    }
}
