//! Seeded generation of `net` runs: swarm configuration + compiled op list.

use super::net::*;
use super::netconn::Proto;
use crate::core::{Case, Tier};
use crate::prng::Prng;

struct Gen {
    s: Prng,
    ops: Vec<NetOp>,
    tag: u32,
    loss: u64,
    dup: u64,
    reorder: u64,
    sendfail: u64,
    skew: bool,
    size_profile: u8,
    vital_pct: u64,
    allow_over: bool,
    max_len: u32,
}

impl Gen {
    fn tag(&mut self) -> u32 {
        self.tag += 1;
        self.tag
    }
    fn len(&mut self) -> u32 {
        let m = self.max_len as u64;
        let l = match self.size_profile {
            0 => self.s.range(0, 16),
            1 => match self.s.below(10) {
                0 => self.s.range(0, 6),
                1..=5 => self.s.range(6, 120),
                6..=7 => self.s.range(100, 700),
                8 => self.s.range(700, m),
                _ => *self.s.pick(&[0u64, 1, 5, 6, 7, 255, 256, 1000, 1021, 1022, 1023, 1024, 1025, 1383, 1384, 1385, 1386, 1387, 1388, 1389, 1390]),
            },
            2 => m - self.s.range(0, 16).min(m),
            3 => self.s.range(900, m),
            5 => self.s.range(0, 2),
            _ => self.s.range(0, 40),
        };
        let l = l.min(m);
        if self.allow_over && self.s.chance(1, 12) {
            if self.s.chance(1, 8) {
                // lengths that only differ from acceptable ones beyond 16 bits
                return *self.s.pick(&[32767u32, 32768, 65535, 65536, 65537, 66000, 66926, 66927, 131072, 131073, 200_000]);
            }
            return *self.s.pick(&[1391u32, 1392, 1393, 1394, 1400, 1401, 2000, 2047, 2048, 2049, 4095, 4096, 5000]);
        }
        l as u32
    }
    fn pick(&mut self) -> i32 {
        if self.reorder > 0 && self.s.chance(self.reorder, 1000) {
            if self.s.chance(1, 2) {
                -1 - self.s.below(4) as i32
            } else {
                self.s.below(8) as i32
            }
        } else {
            0
        }
    }
    fn faults_after_traffic(&mut self) {
        // faults land right after something was put in flight
        if self.loss > 0 && self.s.chance(self.loss, 1000) {
            let dir = self.s.below(2) as u8;
            let pick = if self.s.chance(2, 3) { -1 } else { self.pick() };
            self.ops.push(NetOp::Drop { dir, pick });
        }
        if self.dup > 0 && self.s.chance(self.dup, 1000) {
            let dir = self.s.below(2) as u8;
            let pick = if self.s.chance(2, 3) { -1 } else { self.pick() };
            self.ops.push(NetOp::Dup { dir, pick });
        }
        if self.sendfail > 0 && self.s.chance(self.sendfail, 1000) {
            let ep = self.s.below(2) as u8;
            let n = 1 + self.s.below(3) as u8;
            self.ops.push(NetOp::SendErr { ep, n });
        }
        if self.dup > 0 && self.s.chance(self.dup, 2000) {
            // a long-delayed copy of something delivered earlier (often one of the very first datagrams)
            let dir = self.s.below(2) as u8;
            let pick = if self.s.chance(1, 2) { self.s.below(6) as i32 } else { -1 - self.s.below(20) as i32 };
            self.ops.push(NetOp::Redeliver { dir, pick });
        }
    }
    fn send(&mut self, ep: u8) {
        let vital = self.s.chance(self.vital_pct, 100);
        let len = self.len();
        let fill = self.s.below(5) as u8;
        let tag = self.tag();
        self.ops.push(NetOp::Send { ep, vital, len, fill, tag });
    }
    fn pump(&mut self, rounds: u64) {
        for _ in 0..rounds {
            for dir in 0..2u8 {
                let pick = self.pick();
                self.ops.push(NetOp::Deliver { dir, pick });
                self.faults_after_traffic();
            }
        }
    }
    fn time(&mut self) {
        let usec = match self.s.below(12) {
            0..=2 => self.s.range(1_000, 50_000),
            3..=5 => self.s.range(100_000, 600_000),
            6..=8 => self.s.range(900_000, 1_300_000),
            9 => self.s.range(1_000_000, 5_000_000),
            10 => *self.s.pick(&[499_999u64, 500_000, 500_001, 999_999, 1_000_000, 1_000_001]),
            _ => self.s.range(10_000_000, 300_000_000),
        };
        let ep = if self.skew && self.s.chance(1, 3) { self.s.below(2) as u8 } else { 2 };
        self.ops.push(NetOp::Advance { ep, usec });
        match self.s.below(4) {
            0 => self.ops.push(NetOp::Tick { ep: 0 }),
            1 => self.ops.push(NetOp::Tick { ep: 1 }),
            2 => {
                self.ops.push(NetOp::Tick { ep: 0 });
                self.ops.push(NetOp::Tick { ep: 1 });
            }
            _ => {
                self.ops.push(NetOp::Tick { ep: 1 });
                self.ops.push(NetOp::Tick { ep: 0 });
            }
        }
        self.faults_after_traffic();
    }
}

pub fn generate(prop: NetProp, seed: u64, tier: Tier) -> Case<NetCfg, NetOp> {
    let mut c = Prng::stream(seed, 1);
    let proto = match prop {
        NetProp::C03 => *c.pick(&[Proto::V6Token, Proto::V7]),
        _ => *c.pick(&[Proto::V6Token, Proto::V6NoToken, Proto::V7]),
    };
    let fault_free = c.chance(1, 8);
    let heavy = c.chance(1, 6);
    let on = |c: &mut Prng, p: u64| !fault_free && c.chance(p, 100);
    let scale = if heavy { 3 } else { 1 };
    let light = prop == NetProp::C03;
    let loss = if on(&mut c, 55) { c.range(10, if light { 40 } else { 150 }) * scale } else { 0 };
    let dup = if on(&mut c, 45) { c.range(10, if light { 40 } else { 100 }) * scale } else { 0 };
    let reorder = if on(&mut c, 50) { c.range(30, 300) * scale } else { 0 };
    let sendfail = if on(&mut c, 25) { c.range(5, 40) } else { 0 };
    let skew = on(&mut c, 40);
    // the first k draws of an endpoint return reserved patterns (all-ones / all-zeroes in any sequence); k up to 7:
    // a retry loop around the draw must cope with several reserved values in a row
    let weak = if prop == NetProp::C03 && c.chance(1, 3) { [*c.pick(&[0u8, 1, 2, 3, 3, 4, 5, 7]), *c.pick(&[0u8, 1, 2, 3, 3, 4, 5, 7])] } else if !fault_free && c.chance(1, 20) { [*c.pick(&[0u8, 1, 2, 3, 4, 6]), *c.pick(&[0u8, 1, 2, 3, 4, 6])] } else { [0, 0] };
    let size_profile = match prop {
        NetProp::C03 => *c.pick(&[0u8, 1, 1, 4]),
        NetProp::C02 => *c.pick(&[0u8, 1, 1, 1, 2, 3]),
        _ => *c.pick(&[0u8, 1, 1, 1, 2, 3, 4, 5]),
    };
    // 0 balanced, 1 bulk vital, 2 non-vital heavy, 3 flush-rare (many small chunks), 4 tick-rare (timers fire late), 5 wrap
    let mut op_profile = *c.pick(&[0u8, 0, 0, 1, 1, 2, 3, 3, 4]);
    let wrap = match tier {
        Tier::Quick => c.chance(1, 400),
        Tier::Thorough => c.chance(1, 60),
    } && matches!(prop, NetProp::C01 | NetProp::C02 | NetProp::C04);
    if wrap {
        op_profile = 5;
    }
    // C02 only: a deep backlog (> 512 vital chunks unacknowledged at once) built during a blackout
    let backlog = prop == NetProp::C02 && !wrap && c.chance(1, 30);
    if backlog {
        op_profile = 6;
    }
    let n_target: usize = if wrap {
        9000
    } else {
        match c.below(20) {
            0..=7 => c.range(20, 80) as usize,
            8..=15 => c.range(80, 220) as usize,
            16..=18 => c.range(220, 700) as usize,
            _ => {
                if tier == Tier::Thorough {
                    c.range(700, 3000) as usize
                } else {
                    c.range(300, 900) as usize
                }
            }
        }
    };
    // the wrap profile must get >1024 vital chunks through: light faults only
    let (loss, dup, reorder, sendfail) = if wrap { (loss.min(30), dup.min(30), reorder.min(100), sendfail.min(5)) } else { (loss, dup, reorder, sendfail) };
    let window = if wrap { *c.pick(&[64u32, 128, 400]) } else if backlog { 720 } else { 0 };
    let window = if wrap || backlog { window } else { match prop {
        NetProp::C02 => c.range(4, 96) as u32,
        _ => *c.pick(&[8u32, 64, 200, 400, 400]),
    } };
    // window + age stays below the 10-bit sequence space with a margin
    let age = if backlog { 200 } else { c.range(200, 400) as u32 };
    let cfg_seed = c.next_u64();
    let stateless_accept = proto == Proto::V6Token && c.chance(1, 6);
    // several sessions on the same Connection objects (disconnect, reset(), connect again)
    let sessions: usize = if !wrap && !backlog && matches!(prop, NetProp::C01 | NetProp::C02 | NetProp::C04) && c.chance(1, 7) { 2 + c.below(2) as usize } else { 1 };
    // C04: authenticated forged / reflected / mangled datagrams (per mille of main-phase steps)
    let forge: u64 = if prop == NetProp::C04 && c.chance(1, 3) { c.range(20, 250) } else { 0 };
    let cfg = NetCfg {
        proto,
        seed: cfg_seed,
        window,
        age,
        weak_rng: weak,
        stateless_accept,
        alien_token: if prop == NetProp::C03 && proto == Proto::V6Token && c.chance(1, 5) { 1 + c.below(2) as u8 } else { 0 },
        profile: format!(
            "faults[loss={} dup={} reorder={} sendfail={} skew={} weak={:?} forge={}] size={} ops={} n~{} sessions={}",
            loss, dup, reorder, sendfail, skew, weak, forge, size_profile, op_profile, n_target, sessions
        ),
    };
    let mut g = Gen {
        s: Prng::stream(seed, 2),
        ops: Vec::with_capacity(n_target + 64),
        tag: 0,
        loss,
        dup,
        reorder,
        sendfail,
        skew,
        size_profile: if wrap { 0 } else { size_profile },
        vital_pct: match op_profile {
            1 | 5 => 95,
            2 => 20,
            _ => 65,
        },
        allow_over: prop == NetProp::C04,
        max_len: if prop != NetProp::C04 && !proto.is_v7() { 1030 } else { 1390 },
    };
    let n_total = n_target;
    for session in 0..sessions {
    if session > 0 {
        // the applications close the session (sometimes politely, sometimes the Restart does it)
        if g.s.chance(2, 3) {
            let ep = g.s.below(2) as u8;
            let reason_len = *g.s.pick(&[0u8, 0, 1, 20, 127]);
            let tag = g.tag();
            g.ops.push(NetOp::Disconnect { ep, reason_len, tag });
            let r = g.s.range(0, 2);
            g.pump(r);
        }
        g.ops.push(NetOp::Restart { soft: g.s.chance(1, 3) });
        if g.s.chance(1, 4) {
            g.time();
        }
    }
    let n_target = g.ops.len() + n_total / sessions;
    // ---- opening
    if prop == NetProp::C04 && g.s.chance(1, 12) {
        // disconnect (reject) before any handshake
        let ep = g.s.below(2) as u8;
        let reason_len = *g.s.pick(&[0u8, 1, 3, 4, 20, 126, 127]);
        let tag = g.tag();
        g.ops.push(NetOp::Disconnect { ep, reason_len, tag });
    }
    if prop == NetProp::C03 && g.s.chance(1, 2) {
        // foreign traffic hitting a 0.7 acceptor / anything before the connect
        let k = g.s.below(8) as u8;
        let salt = g.s.next_u64();
        g.ops.push(NetOp::Inject { ep: 1, kind: k, salt });
    }
    if g.s.chance(1, 10) {
        g.ops.push(NetOp::Tick { ep: g.s.below(2) as u8 });
    }
    if g.sendfail > 0 && g.s.chance(1, 6) {
        // the very first datagram(s) of the session fail in the send callback
        let ep = g.s.below(2) as u8;
        let n = 1 + g.s.below(3) as u8;
        g.ops.push(NetOp::SendErr { ep, n });
    }
    g.ops.push(NetOp::Connect);
    g.faults_after_traffic();
    let inject = |g: &mut Gen, n: u64| {
        for _ in 0..n {
            let ep = g.s.below(2) as u8;
            let kind = g.s.below(8) as u8;
            let salt = g.s.next_u64();
            g.ops.push(NetOp::Inject { ep, kind, salt });
        }
    };
    // handshake: needs up to 3 (0.6) / 5 (0.7) one-way trips
    let hs_rounds = g.s.range(2, 6);
    for _ in 0..hs_rounds {
        if prop == NetProp::C03 {
            let n = g.s.below(3);
            inject(&mut g, n);
        }
        if forge > 0 && g.s.chance(forge, 600) {
            let ep = g.s.below(2) as u8;
            let kind = g.s.below(8) as u8;
            let salt = g.s.next_u64();
            g.ops.push(NetOp::Forge { ep, kind, salt });
        }
        if prop == NetProp::C04 && g.s.chance(1, 40) {
            let ep = g.s.below(2) as u8;
            let reason_len = *g.s.pick(&[0u8, 1, 3, 4, 20, 126, 127]);
            let tag = g.tag();
            g.ops.push(NetOp::Disconnect { ep, reason_len, tag });
        }
        g.pump(1);
        if g.s.chance(1, 6) {
            g.time();
        }
    }
    // early loss: the first data datagrams of the session are lost and come back one second later as a
    // retransmission burst split over several datagrams, which overtake each other
    if prop != NetProp::C03 && op_profile != 5 && op_profile != 6 && g.s.chance(1, 8) {
        let ep = if g.s.chance(3, 4) { 0u8 } else { 1 };
        if ep == 1 {
            g.send(0);
            g.ops.push(NetOp::Flush { ep: 0 });
            g.pump(1);
        }
        let k = g.s.range(2, 6);
        for i in 0..k {
            let len = g.s.range(200, 1000).min(g.max_len as u64) as u32;
            let fill = g.s.below(5) as u8;
            let tag = g.tag();
            g.ops.push(NetOp::Send { ep, vital: true, len, fill, tag });
            g.ops.push(NetOp::Flush { ep });
            if i == 0 || g.s.chance(3, 4) {
                g.ops.push(NetOp::Drop { dir: ep, pick: -1 });
            }
        }
        let usec = 1_000_000 + g.s.range(0, 400_000);
        g.ops.push(NetOp::Advance { ep: 2, usec });
        g.ops.push(NetOp::Tick { ep });
        for _ in 0..k + 2 {
            let pick = if g.s.chance(2, 3) { -1 } else { g.s.below(4) as i32 };
            g.ops.push(NetOp::Deliver { dir: ep, pick });
        }
        g.pump(2);
    } else
    // A announces itself so that B comes online (a client's first message)
    if g.s.chance(9, 10) {
        g.send(0);
        g.ops.push(NetOp::Flush { ep: 0 });
        g.pump(1);
    }
    // ---- blackout: one side keeps submitting vital chunks while nothing is delivered
    if op_profile == 6 {
        let ep = g.s.below(2) as u8;
        if ep == 1 {
            g.pump(2);
        }
        let n = g.s.range(520, 700);
        let every = g.s.range(1, 60);
        for k in 0..n {
            let len = g.s.range(0, 3) as u32;
            let fill = g.s.below(5) as u8;
            let tag = g.tag();
            g.ops.push(NetOp::Send { ep, vital: true, len, fill, tag });
            if k % every == 0 {
                g.ops.push(NetOp::Flush { ep });
            }
            if g.s.chance(1, 40) {
                g.ops.push(NetOp::Drop { dir: ep, pick: 0 });
            }
        }
        g.ops.push(NetOp::Flush { ep });
        if g.s.chance(1, 2) {
            g.pump(1);
        }
    }
    // ---- main phase
    let weights: [u32; 9] = match op_profile {
        // send+flush, burst, flush, pump, deliver-one, time, tick, connless, senderr
        0 => [30, 6, 8, 25, 12, 12, 5, 1, 1],
        1 => [45, 10, 5, 20, 8, 8, 3, 0, 1],
        2 => [40, 8, 8, 22, 10, 8, 3, 1, 0],
        3 => [5, 40, 3, 20, 12, 12, 6, 1, 1],
        4 => [35, 8, 8, 28, 12, 3, 2, 1, 3],
        5 => [55, 2, 0, 35, 0, 8, 0, 0, 0],
        _ => [10, 0, 5, 30, 10, 30, 10, 0, 1],
    };
    let mut disconnected = false;
    let n_target = if op_profile == 6 { g.ops.len() + n_target.min(60) } else { n_target };
    while g.ops.len() < n_target {
        match g.s.weighted(&weights) {
            0 => {
                let ep = g.s.below(2) as u8;
                g.send(ep);
                if op_profile == 5 || g.s.chance(4, 5) {
                    g.ops.push(NetOp::Flush { ep });
                    g.faults_after_traffic();
                }
                if op_profile == 5 {
                    g.pump(1);
                }
            }
            1 => {
                let ep = g.s.below(2) as u8;
                let n = match g.s.below(6) {
                    0 => g.s.range(200, 420),
                    1 => g.s.range(40, 200),
                    _ => g.s.range(2, 30),
                };
                let save = g.size_profile;
                if g.s.chance(2, 3) {
                    g.size_profile = *g.s.pick(&[0u8, 4, 5, 5]);
                }
                for _ in 0..n {
                    g.send(ep);
                }
                g.size_profile = save;
                if g.s.chance(1, 2) {
                    g.ops.push(NetOp::Flush { ep });
                    g.faults_after_traffic();
                }
            }
            2 => {
                g.ops.push(NetOp::Flush { ep: g.s.below(2) as u8 });
                g.faults_after_traffic();
            }
            3 => {
                let r = g.s.range(1, 3);
                g.pump(r);
            }
            4 => {
                let dir = g.s.below(2) as u8;
                let pick = g.pick();
                g.ops.push(NetOp::Deliver { dir, pick });
                g.faults_after_traffic();
            }
            5 => g.time(),
            6 => {
                g.ops.push(NetOp::Tick { ep: g.s.below(2) as u8 });
            }
            7 => {
                if prop == NetProp::C04 {
                    let ep = g.s.below(2) as u8;
                    let len = g.len();
                    let tag = g.tag();
                    g.ops.push(NetOp::SendConnless { ep, len, tag });
                }
            }
            _ => {
                let ep = g.s.below(2) as u8;
                let n = 1 + g.s.below(4) as u8;
                g.ops.push(NetOp::SendErr { ep, n });
            }
        }
        if prop == NetProp::C03 && g.s.chance(1, 5) {
            let n = g.s.range(1, 3);
            inject(&mut g, n);
        }
        if forge > 0 && g.s.chance(forge, 1000) {
            let ep = g.s.below(2) as u8;
            let kind = g.s.below(8) as u8;
            let salt = g.s.next_u64();
            g.ops.push(NetOp::Forge { ep, kind, salt });
            if g.s.chance(1, 2) {
                g.pump(1);
            }
        }
        if prop == NetProp::C04 && !disconnected && g.s.chance(1, 300) {
            disconnected = true;
            let ep = g.s.below(2) as u8;
            let reason_len = *g.s.pick(&[0u8, 1, 3, 4, 20, 126, 127]);
            let tag = g.tag();
            g.ops.push(NetOp::Disconnect { ep, reason_len, tag });
            g.pump(2);
        }
    }
    } // sessions
    if prop == NetProp::C02 {
        g.ops.push(NetOp::FairSuffix { latency: g.s.below(4) as u8 });
    } else if g.s.chance(1, 2) {
        // drain: lets the tail of the run be observed
        g.pump(3);
    }
    Case { cfg, ops: g.ops }
}

pub fn simplify_op(op: &NetOp) -> Vec<NetOp> {
    let mut v = Vec::new();
    match *op {
        NetOp::Send { ep, vital, len, fill, tag } => {
            for l in [0u32, 1, 6, 8, 64, 1023, 1024, 1387, 1388, 1390, 1391, 65536] {
                if l < len {
                    v.push(NetOp::Send { ep, vital, len: l, fill, tag });
                }
            }
            if fill != 0 {
                v.push(NetOp::Send { ep, vital, len, fill: 0, tag });
            }
        }
        NetOp::Advance { ep, usec } => {
            for u in [0u64, 500_000, 1_000_000, 1_100_000, 2_000_000] {
                if u < usec {
                    v.push(NetOp::Advance { ep: 2, usec: u });
                }
            }
            if ep != 2 {
                v.push(NetOp::Advance { ep: 2, usec });
            }
        }
        NetOp::Deliver { dir, pick } if pick != 0 => v.push(NetOp::Deliver { dir, pick: 0 }),
        NetOp::Drop { dir, pick } if pick != 0 => v.push(NetOp::Drop { dir, pick: 0 }),
        NetOp::Dup { dir, pick } if pick != 0 => v.push(NetOp::Dup { dir, pick: 0 }),
        NetOp::Redeliver { dir, pick } if pick != 0 => v.push(NetOp::Redeliver { dir, pick: 0 }),
        NetOp::SendErr { ep, n } if n > 1 => v.push(NetOp::SendErr { ep, n: 1 }),
        NetOp::Disconnect { ep, reason_len, tag } if reason_len > 0 => v.push(NetOp::Disconnect { ep, reason_len: 0, tag }),
        NetOp::SendConnless { ep, len, tag } if len > 0 => v.push(NetOp::SendConnless { ep, len: 0, tag }),
        NetOp::FairSuffix { latency } if latency % 4 != 0 => v.push(NetOp::FairSuffix { latency: 0 }),
        _ => {}
    }
    v
}
