//! Engine `sbrowse` (C18): a model game server emits the datagrams of a
//! multi-part server info (legacy 64-player and extended format); a simulated
//! network delivers them in any order, duplicated, lost or corrupted; the real
//! parser and `PartialServerInfo::merge` must be order-free and idempotent.

use crate::core::*;
use crate::prng::{mix, Prng};
use libtw2_serverbrowse::protocol as p;
use serde::{Deserialize, Serialize};

#[derive(Clone, Debug, Serialize, Deserialize)]
pub struct SbCfg {
    pub seed: u64,
    /// 0 = legacy 64 (`dtsf`), 1 = extended (`iext` + `iex+`)
    pub format: u8,
    pub n_clients: u8,
    /// clients per packet
    pub chunk: u8,
    /// extended: clients in the main packet
    pub main_clients: u8,
    /// several clients may share name and clan
    #[serde(default)]
    pub shared_names: bool,
}

#[derive(Clone, Debug, Serialize, Deserialize, PartialEq)]
#[serde(tag = "op")]
pub enum SbOp {
    Deliver { pick: i32 },
    Dup { pick: i32 },
    Drop { pick: i32 },
    /// in-flight corruption: kind 0 flip bit, 1 truncate, 2 overwrite a numeric field with a boundary value, 3 random byte
    Corrupt { pick: i32, kind: u8, at: u32, val: u8 },
    /// a datagram of one of the other response kinds, run through the same corruptor (parse totality)
    Other { kind: u8, salt: u32, corrupt: bool, at: u32, val: u8 },
}

#[derive(Clone, Debug, PartialEq, Eq, PartialOrd, Ord)]
struct MClient {
    name: String,
    clan: String,
    country: i32,
    score: i32,
    is_player: bool,
}

struct Model {
    token: i32,
    version: String,
    name: String,
    map: String,
    map_crc: u32,
    map_size: u32,
    game_type: String,
    flags: i32,
    num_players: i32,
    max_players: i32,
    num_clients: i32,
    max_clients: i32,
    clients: Vec<MClient>,
}

struct Part {
    id: usize,
    bytes: Vec<u8>,
    corrupted: bool,
}

fn v(class: &str, keys: &[(&str, &str)], obs: String) -> Violation {
    Violation::new("C18", class, keys, obs)
}

fn pick_index(len: usize, pick: i32) -> usize {
    if pick >= 0 {
        pick as usize % len
    } else {
        len - 1 - ((-(pick as i64) - 1) as usize % len)
    }
}

fn s(out: &mut Vec<u8>, x: &str) {
    out.extend_from_slice(x.as_bytes());
    out.push(0);
}
fn i(out: &mut Vec<u8>, x: i64) {
    s(out, &x.to_string());
}

fn word(r: &mut Prng, max: usize) -> String {
    let n = r.usize_below(max + 1);
    (0..n).map(|_| b"abcdefghijklmnopqrstuvwxyzABCDEF0123456789_-[]"[r.usize_below(46)] as char).collect()
}

fn model(cfg: &SbCfg) -> Model {
    let mut r = Prng::new(mix(cfg.seed, 0x6d6f64, 0));
    // the extended format has no client limit (and its datagrams may hold more than 64 entries)
    let n = cfg.n_clients.min(if cfg.format == 1 { 250 } else { 64 }) as usize;
    let mut clients = Vec::new();
    for k in 0..n {
        clients.push(MClient {
            // mostly unique names; with `shared_names` several clients share name (and clan), as "(connecting)"
            // or "nameless tee" clients do on real servers, and differ only in the other fields
            name: if cfg.shared_names && r.chance(1, 2) { (*r.pick(&["(connecting)", "nameless tee", "a", ""])).to_string() } else { format!("p{}{}", k, word(&mut r, 8)) },
            clan: if cfg.shared_names && r.chance(2, 3) { String::new() } else { word(&mut r, 11) },
            country: r.range(0, 1000) as i32 - 1,
            score: r.i32_edge(),
            is_player: r.chance(2, 3),
        });
    }
    let num_players = clients.iter().filter(|c| c.is_player).count() as i32;
    let max_clients = (n as i32).max(r.range(n as u64, 64.max(n as u64)) as i32);
    Model {
        token: r.below(1 << 24) as i32,
        version: format!("0.6.{}", r.below(9)),
        name: word(&mut r, 40),
        map: word(&mut r, 20),
        map_crc: r.next_u64() as u32,
        map_size: r.below(1 << 24) as u32,
        game_type: word(&mut r, 10),
        flags: r.below(4) as i32,
        num_players,
        max_players: (num_players).max(r.range(num_players as u64, max_clients.max(num_players) as u64) as i32),
        num_clients: n as i32,
        max_clients,
        clients,
    }
}

fn client_fields(out: &mut Vec<u8>, c: &MClient, ex: bool) {
    s(out, &c.name);
    s(out, &c.clan);
    i(out, c.country as i64);
    i(out, c.score as i64);
    i(out, c.is_player as i64);
    if ex {
        s(out, "");
    }
}

/// The datagrams a server sends for this info; part ids are 0..n.
/// (received mask as the library computes it, client index range) of every part `build_parts` emits
fn part_layout(cfg: &SbCfg, m: &Model) -> Vec<(u64, usize, usize)> {
    let mut out = Vec::new();
    let chunk = cfg.chunk.clamp(1, if cfg.format == 1 { 130 } else { 80 }) as usize;
    let n = m.clients.len();
    if cfg.format == 0 {
        let mut off = 0usize;
        loop {
            let end = (off + chunk).min(n);
            let mut mask = 0u64;
            for j in off..end {
                if j < 64 {
                    mask |= 1 << j;
                }
            }
            out.push((mask, off, end));
            off = end;
            if off >= n {
                break;
            }
        }
    } else {
        let main_n = (cfg.main_clients as usize).min(n);
        out.push((1, 0, main_n));
        let mut off = main_n;
        let mut no = 1;
        while off < n && no <= 63 {
            let end = (off + chunk).min(n);
            out.push((1u64 << no, off, end));
            off = end;
            no += 1;
        }
        if off < n {
            out.last_mut().unwrap().2 = n;
        }
    }
    out
}

/// Executable model of the *listed* defect (KNOWN_FINDINGS C18): `merge` never
/// records `other.received`, so only the first part's mask (or, after the
/// extended format's swap, the main part's mask) is remembered. Used only to
/// decide whether an observed idempotence violation is exactly that defect.
struct DefectModel {
    received: u64,
    merged: Vec<usize>,
}
impl DefectModel {
    fn merge(&mut self, ext: bool, id: usize, mask: u64) {
        if self.received & mask == mask {
            return;
        }
        if self.received & mask != 0 {
            return; // OverlappingInfos: never for this traffic
        }
        if ext && self.received & 1 == 0 {
            self.received = mask;
        }
        self.merged.push(id);
    }
}

fn build_parts(cfg: &SbCfg, m: &Model) -> Vec<Vec<u8>> {
    let mut parts = Vec::new();
    let chunk = cfg.chunk.clamp(1, if cfg.format == 1 { 130 } else { 80 }) as usize;
    if cfg.format == 0 {
        let mut off = 0usize;
        loop {
            let mut d = p::INFO_6_64.to_vec();
            i(&mut d, m.token as i64);
            s(&mut d, &m.version);
            s(&mut d, &m.name);
            s(&mut d, &m.map);
            s(&mut d, &m.game_type);
            i(&mut d, m.flags as i64);
            i(&mut d, m.num_players as i64);
            i(&mut d, m.max_players as i64);
            i(&mut d, m.num_clients as i64);
            i(&mut d, m.max_clients as i64);
            i(&mut d, off as i64);
            let end = (off + chunk).min(m.clients.len());
            for c in &m.clients[off..end] {
                client_fields(&mut d, c, false);
            }
            parts.push(d);
            off = end;
            if off >= m.clients.len() {
                break;
            }
        }
    } else {
        let main_n = (cfg.main_clients as usize).min(m.clients.len());
        let mut d = p::INFO_6_EX.to_vec();
        i(&mut d, m.token as i64);
        s(&mut d, &m.version);
        s(&mut d, &m.name);
        s(&mut d, &m.map);
        i(&mut d, m.map_crc as i32 as i64);
        i(&mut d, m.map_size as i64);
        s(&mut d, &m.game_type);
        i(&mut d, m.flags as i64);
        i(&mut d, m.num_players as i64);
        i(&mut d, m.max_players as i64);
        i(&mut d, m.num_clients as i64);
        i(&mut d, m.max_clients as i64);
        s(&mut d, "");
        for c in &m.clients[..main_n] {
            client_fields(&mut d, c, true);
        }
        parts.push(d);
        let mut off = main_n;
        let mut no = 1;
        while off < m.clients.len() && no <= 63 {
            let mut d = p::INFO_6_EX_MORE.to_vec();
            i(&mut d, m.token as i64);
            i(&mut d, no);
            s(&mut d, "");
            let end = (off + chunk).min(m.clients.len());
            for c in &m.clients[off..end] {
                client_fields(&mut d, c, true);
            }
            parts.push(d);
            off = end;
            no += 1;
        }
        // more clients than 63 extra packets can carry are simply in the last one
        if off < m.clients.len() {
            let last = parts.last_mut().unwrap();
            for c in &m.clients[off..] {
                client_fields(last, c, true);
            }
        }
    }
    parts
}

fn corrupt(d: &mut Vec<u8>, kind: u8, at: u32, val: u8) {
    if d.is_empty() {
        return;
    }
    match kind % 4 {
        0 => {
            let k = at as usize % d.len();
            d[k] ^= 1 << (val % 8);
        }
        1 => {
            let k = at as usize % (d.len() + 1);
            d.truncate(k);
        }
        2 => {
            // overwrite the n-th NUL-terminated field after the header with a boundary number
            // (incl. digit strings beyond 32 and 64 bits, signs, blanks, leading zeros, non-ASCII digits)
            let vals: [&str; 28] = [
                "0", "-1", "1", "63", "64", "65", "24", "-2147483648", "2147483647", "4294967296", "", "x", "00064", "16",
                "2147483648", "-2147483649", "9223372036854775807", "9223372036854775808", "-9223372036854775808", "-9223372036854775809",
                "18446744073709551615", "18446744073709551616", "99999999999999999999999999999999999999999", "-", "+5", " 7", "7 ", "\u{ff11}\u{ff12}",
            ];
            let rep = vals[val as usize % vals.len()];
            let body_start = 14.min(d.len());
            let fields: Vec<(usize, usize)> = {
                let mut f = Vec::new();
                let mut st = body_start;
                for (k, &b) in d.iter().enumerate().skip(body_start) {
                    if b == 0 {
                        f.push((st, k));
                        st = k + 1;
                    }
                }
                f
            };
            if !fields.is_empty() {
                let (a, b) = fields[at as usize % fields.len().min(14)];
                d.splice(a..b, rep.bytes());
            }
        }
        _ => {
            let k = at as usize % d.len();
            d[k] = val;
        }
    }
}

/// Datagrams of the other response kinds (single-packet infos, lists, counts, 0.7 kinds).
fn other_datagram(seed: u64, kind: u8, salt: u32) -> Vec<u8> {
    let mut r = Prng::new(mix(seed, salt as u64, 0x6f7468));
    let mut d: Vec<u8> = Vec::new();
    let info_body = |d: &mut Vec<u8>, r: &mut Prng, v5: bool, n: usize| {
        i(d, r.below(256) as i64);
        s(d, "0.6.4");
        s(d, &word(r, 30));
        s(d, &word(r, 10));
        s(d, "DM");
        i(d, r.below(2) as i64);
        if v5 {
            i(d, r.below(100) as i64);
        }
        i(d, n as i64);
        i(d, 16);
        if !v5 {
            i(d, n as i64);
            i(d, 16);
        }
        for k in 0..n {
            s(d, &format!("n{}", k));
            if !v5 {
                s(d, "clan");
                i(d, r.below(900) as i64);
            }
            i(d, r.i32_edge() as i64);
            if !v5 {
                i(d, r.below(2) as i64);
            }
        }
    };
    match kind % 11 {
        0 => {
            d.extend_from_slice(p::LIST_5);
            { let n = 6 * r.usize_below(20) + r.usize_below(2); d.extend_from_slice(&r.bytes(n)); }
        }
        1 => {
            d.extend_from_slice(p::LIST_6);
            { let n = 18 * r.usize_below(20) + r.usize_below(2); d.extend_from_slice(&r.bytes(n)); }
        }
        2 => {
            d.extend_from_slice(p::COUNT);
            { let n = r.usize_below(4); d.extend_from_slice(&r.bytes(n)); }
        }
        3 => {
            d.extend_from_slice(p::INFO_5);
            let n = r.usize_below(17);
            info_body(&mut d, &mut r, true, n);
        }
        4 => {
            d.extend_from_slice(p::INFO_6);
            let n = r.usize_below(17);
            info_body(&mut d, &mut r, false, n);
        }
        5 => {
            d.extend_from_slice(p::INFO_6_DDPER);
            let n = r.usize_below(17);
            info_body(&mut d, &mut r, false, n);
        }
        6 => {
            d.extend_from_slice(p::TOKEN_7);
            d[3..7].copy_from_slice(&r.bytes(4));
            { let n = r.usize_below(6); d.extend_from_slice(&r.bytes(n)); }
        }
        7 => {
            d.extend_from_slice(p::LIST_7);
            d[1..9].copy_from_slice(&r.bytes(8));
            { let n = 18 * r.usize_below(10); d.extend_from_slice(&r.bytes(n)); }
        }
        8 => {
            d.extend_from_slice(p::COUNT_7);
            d[1..9].copy_from_slice(&r.bytes(8));
            { let n = r.usize_below(4); d.extend_from_slice(&r.bytes(n)); }
        }
        9 => {
            d.extend_from_slice(p::INFO_7);
            d[1..9].copy_from_slice(&r.bytes(8));
            // 0.7 info: ints are varints; a plausible body followed by noise
            d.extend_from_slice(&[r.below(64) as u8]);
            for w in ["0.7.5", "server", "host", "map", "DM"] {
                s(&mut d, w);
            }
            { let n = r.usize_below(40); d.extend_from_slice(&r.bytes(n)); }
        }
        _ => { let n = r.usize_below(64); d.extend_from_slice(&r.bytes(n)); }
    }
    d
}

pub struct SbEngine;

impl Engine for SbEngine {
    type Cfg = SbCfg;
    type Op = SbOp;
    fn engine_name(&self) -> &'static str {
        "sbrowse"
    }
    fn property(&self) -> &'static str {
        "C18"
    }
    fn budget(&self) -> (u64, u64) {
        (400_000, 240)
    }

    fn generate(&self, seed: u64, _tier: Tier) -> Case<SbCfg, SbOp> {
        let mut c = Prng::stream(seed, 1);
        let mut s = Prng::stream(seed, 2);
        let format = c.below(2) as u8;
        let n_clients = match c.below(6) {
            0 => c.range(0, 3) as u8,
            1 => 64,
            2 => *c.pick(&[23u8, 24, 25, 47, 48, 49, 63]),
            _ => c.range(0, 64) as u8,
        };
        let crowded = format == 1 && c.chance(1, 6);
        let n_clients = if crowded { *c.pick(&[65u8, 66, 90, 128, 129, 200, 250]) } else { n_clients };
        let cfg = SbCfg {
            seed: c.next_u64(),
            format,
            n_clients,
            chunk: if format == 0 { *c.pick(&[24u8, 24, 24, 24, 16, 20, 1, 7, 32, 63, 64, 65]) } else { if crowded { *c.pick(&[16u8, 40, 63, 64, 65, 66, 90, 128]) } else { *c.pick(&[1u8, 2, 5, 16, 24, 40, 64]) } },
            main_clients: if crowded && c.chance(1, 2) { c.range(60, 100) as u8 } else if c.chance(1, 6) { c.range(0, 64) as u8 } else { c.range(0, 24) as u8 },
            shared_names: c.chance(1, 4),
        };
        let mode = c.below(8); // 0-2: permutation only; 3-4: + loss; 5-6: + duplicates; 7: corruption
        let n_parts_guess = 70;
        let mut ops = Vec::new();
        let rounds = c.range(1, n_parts_guess + 10);
        for _ in 0..rounds {
            match mode {
                3 | 4 if s.chance(1, 8) => ops.push(SbOp::Drop { pick: s.below(64) as i32 }),
                5 | 6 if s.chance(1, 4) => ops.push(SbOp::Dup { pick: s.below(64) as i32 }),
                7 => {
                    if s.chance(1, 3) {
                        ops.push(SbOp::Corrupt { pick: s.below(64) as i32, kind: s.below(4) as u8, at: s.next_u64() as u32, val: s.below(256) as u8 });
                    }
                    if s.chance(1, 3) {
                        ops.push(SbOp::Other { kind: s.below(11) as u8, salt: s.next_u64() as u32, corrupt: s.chance(3, 4), at: s.next_u64() as u32, val: s.below(256) as u8 });
                    }
                }
                _ => {}
            }
            let pick = if s.chance(1, 4) { 0 } else { s.below(64) as i32 - 32 };
            ops.push(SbOp::Deliver { pick });
        }
        if mode == 5 || mode == 6 {
            // late duplicates after everything was delivered
            for _ in 0..s.range(0, 4) {
                ops.push(SbOp::Dup { pick: s.below(64) as i32 });
                ops.push(SbOp::Deliver { pick: -1 });
            }
        }
        Case { cfg, ops }
    }

    fn execute(&self, case: &Case<SbCfg, SbOp>, ctx: &mut Ctx) -> Option<Violation> {
        let cfg = &case.cfg;
        let m = model(cfg);
        let parts = build_parts(cfg, &m);
        let n_parts = parts.len();
        // every datagram ever sent stays available for network duplication
        let sent: Vec<Vec<u8>> = parts.clone();
        let mut wire: Vec<Part> = parts.into_iter().enumerate().map(|(id, bytes)| Part { id, bytes, corrupted: false }).collect();
        let mut acc: Option<p::PartialServerInfo> = None;
        let mut delivered = vec![0u32; n_parts];
        let mut any_corruption = false;
        let layout = part_layout(cfg, &m);
        assert_eq!(layout.len(), n_parts);
        let mut defect: Option<DefectModel> = None;
        ctx.logf(|| format!("server: format {} with {} clients in {} datagram(s)", if cfg.format == 0 { "legacy-64" } else { "extended" }, m.clients.len(), n_parts));
        for op in &case.ops {
            ctx.ops_executed += 1;
            match *op {
                SbOp::Drop { pick } => {
                    ctx.t(1);
                    if wire.is_empty() {
                        continue;
                    }
                    let k = pick_index(wire.len(), pick);
                    wire.remove(k);
                    ctx.count("fault_loss");
                    ctx.fault_inflight = true;
                }
                SbOp::Dup { pick } => {
                    ctx.t(2);
                    // the network may duplicate anything that was ever sent
                    let k = pick_index(n_parts, pick);
                    wire.push(Part { id: k, bytes: sent[k].clone(), corrupted: false });
                    ctx.count("fault_duplication");
                    ctx.fault_inflight = true;
                }
                SbOp::Corrupt { pick, kind, at, val } => {
                    ctx.t(3);
                    if wire.is_empty() {
                        continue;
                    }
                    let k = pick_index(wire.len(), pick);
                    corrupt(&mut wire[k].bytes, kind, at, val);
                    wire[k].corrupted = true;
                    ctx.count("fault_corruption");
                    ctx.fault_inflight = true;
                }
                SbOp::Other { kind, salt, corrupt: c, at, val } => {
                    ctx.t(4);
                    let mut d = other_datagram(cfg.seed, kind, salt);
                    if c {
                        corrupt(&mut d, (at >> 8) as u8, at, val);
                        ctx.count("fault_corruption");
                        ctx.fault_inflight = true;
                    }
                    let r = guard(|| {
                        match p::parse_response(&d) {
                            None => 0u8,
                            Some(p::Response::Info5(x)) => 1 + x.parse().is_some() as u8,
                            Some(p::Response::Info6(x)) => 1 + x.parse().is_some() as u8,
                            Some(p::Response::Info6Ddper(x)) => 1 + x.parse().is_some() as u8,
                            Some(p::Response::Info7(x)) => 1 + x.parse().is_some() as u8,
                            Some(p::Response::Info664(x)) => 1 + x.parse().is_some() as u8,
                            Some(p::Response::Info6Ex(x)) => 1 + x.parse().is_some() as u8,
                            Some(p::Response::Info6ExMore(x)) => 1 + x.parse().is_some() as u8,
                            Some(p::Response::List5(l)) => 3 + (l.0.iter().map(|a| a.unpack().port as u32).sum::<u32>() & 1) as u8,
                            Some(p::Response::List6(l)) => 3 + (l.0.iter().map(|a| a.unpack().port as u32).sum::<u32>() & 1) as u8,
                            Some(p::Response::List7(l)) => 3 + (l.2.iter().map(|a| a.unpack().port as u32).sum::<u32>() & 1) as u8,
                            Some(_) => 5,
                        }
                    });
                    ctx.oracle_event = true;
                    match r {
                        Ok(k) => {
                            ctx.count(match k {
                                0 => "probe_other_rejected",
                                1 => "probe_other_info_rejected",
                                2 => "probe_other_info_parsed",
                                _ => "probe_other_parsed",
                            });
                        }
                        Err(pn) => return Some(v("panic", &[("where", "parse-other-kind"), ("message", &pn.msg_class()), ("file", &pn.file_class())], format!("parsing a datagram panicked: {} at {}:{} (datagram {:02x?})", pn.msg, pn.file, pn.line, &d[..d.len().min(40)]))),
                    }
                }
                SbOp::Deliver { pick } => {
                    ctx.t(5);
                    if wire.is_empty() {
                        continue;
                    }
                    let k = pick_index(wire.len(), pick);
                    if k != 0 {
                        ctx.count("fault_reorder");
                        ctx.fault_inflight = true;
                    }
                    let part = wire.remove(k);
                    if part.corrupted {
                        any_corruption = true;
                    }
                    let bytes = part.bytes.clone();
                    let r = guard(|| {
                        let parsed = match p::parse_response(&bytes) {
                            Some(p::Response::Info664(x)) => x.parse(),
                            Some(p::Response::Info6Ex(x)) => x.parse(),
                            Some(p::Response::Info6ExMore(x)) => x.parse(),
                            _ => None,
                        };
                        parsed
                    });
                    ctx.oracle_event = true;
                    let parsed = match r {
                        Ok(x) => x,
                        Err(pn) => return Some(v("panic", &[("where", "parse"), ("message", &pn.msg_class()), ("file", &pn.file_class())], format!("parsing a{} server-info datagram panicked: {} at {}:{}", if part.corrupted { " corrupted" } else { "" }, pn.msg, pn.file, pn.line))),
                    };
                    let parsed = match parsed {
                        Some(x) => x,
                        None => {
                            if !part.corrupted {
                                return Some(v("valid-part-rejected", &[("format", if cfg.format == 0 { "legacy-64" } else { "extended" })], format!("the parser rejected an uncorrupted datagram (part {} of {})", part.id, n_parts)));
                            }
                            ctx.count("probe_corrupted_part_rejected");
                            continue;
                        }
                    };
                    let repeated = delivered[part.id] > 0 && !part.corrupted;
                    // state before (for idempotence)
                    let before = match &mut acc {
                        Some(a) => guard(|| a.get_info().cloned()).ok().flatten(),
                        None => None,
                    };
                    let merged = guard(|| match &mut acc {
                        None => {
                            acc = Some(parsed);
                            Ok(())
                        }
                        Some(a) => a.merge(parsed).map_err(|e| format!("{:?}", e)),
                    });
                    let merged = match merged {
                        Ok(x) => x,
                        Err(pn) => return Some(v("panic", &[("where", "merge"), ("message", &pn.msg_class()), ("file", &pn.file_class())], format!("merge panicked: {} at {}:{}", pn.msg, pn.file, pn.line))),
                    };
                    if !part.corrupted {
                        delivered[part.id] += 1;
                        match &mut defect {
                            None => defect = Some(DefectModel { received: layout[part.id].0, merged: vec![part.id] }),
                            Some(d) => d.merge(cfg.format != 0, part.id, layout[part.id].0),
                        }
                    }
                    ctx.logf(|| format!("deliver part {}{}{} -> merge {:?}", part.id, if part.corrupted { " (corrupted)" } else { "" }, if repeated { " (repeated)" } else { "" }, merged));
                    if any_corruption {
                        // no checksum: content may legitimately be wrong; only value-or-nothing and no panic
                        let r = guard(|| acc.as_mut().map(|a| a.get_info().is_some()));
                        if let Err(pn) = r {
                            return Some(v("panic", &[("where", "get_info"), ("message", &pn.msg_class()), ("file", &pn.file_class())], format!("get_info panicked after corrupted traffic: {} at {}:{}", pn.msg, pn.file, pn.line)));
                        }
                        continue;
                    }
                    if let Err(e) = &merged {
                        return Some(v("merge-error-on-consistent-parts", &[("error", e)], format!("merging uncorrupted part {} returned {} (parts received so far: {:?})", part.id, e, delivered)));
                    }
                    let want_complete = delivered.iter().all(|&d| d > 0);
                    // a copy taken before get_info() touches the accumulator (get_info sorts in place)
                    let untouched = acc.clone();
                    let info = match guard(|| acc.as_mut().unwrap().get_info().cloned()) {
                        Ok(x) => x,
                        Err(pn) => return Some(v("panic", &[("where", "get_info"), ("message", &pn.msg_class()), ("file", &pn.file_class())], format!("get_info panicked: {} at {}:{}", pn.msg, pn.file, pn.line))),
                    };
                    // is the observation exactly what the listed defect (merge does not record `received`) predicts?
                    let cause = {
                        let d = defect.as_ref().unwrap();
                        let mut pred: Vec<MClient> = d.merged.iter().flat_map(|&id| m.clients[layout[id].1..layout[id].2].iter().cloned()).collect();
                        pred.sort();
                        let pred_complete = pred.len() as i64 == m.num_clients as i64;
                        let same = match &info {
                            None => !pred_complete,
                            Some(x) => {
                                let mut got: Vec<MClient> = x.clients.iter().map(|c| MClient { name: c.name.to_string(), clan: c.clan.to_string(), country: c.country, score: c.score, is_player: c.flags & p::CLIENTINFO_FLAG_SPECTATOR == 0 }).collect();
                                got.sort();
                                pred_complete && got == pred
                            }
                        };
                        if same { "merge-does-not-record-received" } else { "unexplained" }
                    };
                    if repeated {
                        ctx.count("probe_repeated_part");
                        // merging a repeated part changes nothing
                        if info != before && !(before.is_none() && info.is_none()) || (before.is_none() && info.is_none() && want_complete) {
                            return Some(v(
                                "repeated-part-changes-result",
                                &[("cause", cause)],
                                format!("merging part {} a second time changed the result: complete before = {}, after = {} ({} clients announced, {} listed after)", part.id, before.is_some(), info.is_some(), m.num_clients, info.as_ref().or(before.as_ref()).map(|x| x.clients.len()).unwrap_or(0)),
                            ));
                        }
                    }
                    match (&info, want_complete) {
                        (None, true) => {
                            // distinguish the listed defect (duplicates counted twice) from a different one
                            if delivered.iter().any(|&d| d > 1) {
                                return Some(v("repeated-part-changes-result", &[("cause", cause)], format!("all {} parts were received (some repeatedly: {:?}) but the info is not reported complete", n_parts, delivered)));
                            }
                            return Some(v("incomplete-after-all-parts", &[("format", if cfg.format == 0 { "legacy-64" } else { "extended" })], format!("all {} parts were received once ({} clients) but the info is not reported complete", n_parts, m.num_clients)));
                        }
                        (Some(x), false) => {
                            if delivered.iter().any(|&d| d > 1) {
                                return Some(v("repeated-part-changes-result", &[("cause", cause)], format!("the info is reported complete although parts {:?} are missing (repeated parts were counted)", delivered.iter().enumerate().filter(|(_, &d)| d == 0).map(|(k, _)| k).collect::<Vec<_>>())));
                            }
                            return Some(v("complete-too-early", &[], format!("the info is reported complete ({} clients listed, {} announced) although parts {:?} are missing", x.clients.len(), m.num_clients, delivered.iter().enumerate().filter(|(_, &d)| d == 0).map(|(k, _)| k).collect::<Vec<_>>())));
                        }
                        (Some(x), true) => {
                            ctx.count("probe_info_complete");
                            if n_parts >= 3 {
                                ctx.count("probe_info_complete_3plus_parts");
                            }
                            let mut want = m.clients.clone();
                            want.sort();
                            let mut got: Vec<MClient> = x.clients.iter().map(|c| MClient { name: c.name.to_string(), clan: c.clan.to_string(), country: c.country, score: c.score, is_player: c.flags & p::CLIENTINFO_FLAG_SPECTATOR == 0 }).collect();
                            got.sort();
                            let hdr_ok = x.token == m.token && &*x.version == m.version && &*x.name == m.name && &*x.map == m.map && &*x.game_type == m.game_type && x.flags == m.flags && x.num_players == m.num_players && x.max_players == m.max_players && x.num_clients == m.num_clients && x.max_clients == m.max_clients && (cfg.format == 0 || (x.map_crc == Some(m.map_crc) && x.map_size == Some(m.map_size)));
                            // order-freedom: the same parts merged in sending order must give an identical result
                            let reference = guard(|| {
                                let mut a: Option<p::PartialServerInfo> = None;
                                for b in &sent {
                                    let parsed = match p::parse_response(b) {
                                        Some(p::Response::Info664(x)) => x.parse(),
                                        Some(p::Response::Info6Ex(x)) => x.parse(),
                                        Some(p::Response::Info6ExMore(x)) => x.parse(),
                                        _ => None,
                                    };
                                    if let Some(parsed) = parsed {
                                        match &mut a {
                                            None => a = Some(parsed),
                                            Some(acc) => {
                                                let _ = acc.merge(parsed);
                                            }
                                        }
                                    }
                                }
                                a.and_then(|mut acc| acc.get_info().cloned())
                            });
                            if let Ok(Some(r)) = &reference {
                                if r != x {
                                    return Some(v("result-depends-on-order", &[], format!("merging the same {} parts in sending order and in the delivered order gives different results (client order: {:?} vs {:?})", n_parts, r.clients.iter().take(4).map(|c| c.name.to_string()).collect::<Vec<_>>(), x.clients.iter().take(4).map(|c| c.name.to_string()).collect::<Vec<_>>())));
                                }
                            }
                            // the other way to obtain the complete info (`take_info`, on a copy) must hand out the same value
                            let taken = guard(|| {
                                let mut c = untouched.clone().unwrap();
                                c.take_info()
                            });
                            match taken {
                                Ok(Some(ref t)) if t == x => ctx.count("probe_take_info_checked"),
                                Ok(other) => return Some(v("take-info-differs", &[], format!("get_info reports the complete info but take_info returned {}", if other.is_some() { "a different value" } else { "nothing" }))),
                                Err(pn) => return Some(v("panic", &[("where", "take_info"), ("message", &pn.msg_class()), ("file", &pn.file_class())], format!("take_info panicked: {} at {}:{}", pn.msg, pn.file, pn.line))),
                            }
                            if got != want || !hdr_ok {
                                let dup = {
                                    let mut g2 = got.clone();
                                    g2.dedup();
                                    g2.len() != got.len()
                                };
                                return Some(v("complete-info-differs", &[("what", if !hdr_ok { "header-fields" } else if dup { "client-listed-twice" } else { "clients" })], format!("the complete info lists {} clients (expected {}), header ok = {}", got.len(), want.len(), hdr_ok)));
                            }
                        }
                        (None, false) => {}
                    }
                    ctx.state(((delivered.iter().filter(|&&d| d > 0).count() as u64) << 8) | (info.is_some() as u64) << 1 | repeated as u64);
                }
            }
        }
        None
    }

    fn simplify_op(&self, op: &SbOp) -> Vec<SbOp> {
        match *op {
            SbOp::Deliver { pick } if pick != 0 => vec![SbOp::Deliver { pick: 0 }],
            SbOp::Dup { pick } if pick != 0 => vec![SbOp::Dup { pick: 0 }],
            _ => vec![],
        }
    }
    fn simplify_cfg(&self, cfg: &SbCfg) -> Vec<SbCfg> {
        let mut v = Vec::new();
        for n in [0u8, 1, 2, 25, 49] {
            if n < cfg.n_clients {
                v.push(SbCfg { n_clients: n, ..cfg.clone() });
            }
        }
        if cfg.main_clients > 0 {
            v.push(SbCfg { main_clients: 0, ..cfg.clone() });
        }
        v
    }
    fn info(&self) -> EngineInfo {
        EngineInfo {
            rule: "one run = a model server's 0..64-client info in the legacy-64 or extended multi-packet format (harness-own encoder), delivered by a simulated network in any order with duplication (before and after completeness), loss, or in-flight corruption (bit flips, truncation, numeric fields overwritten with boundary values incl. 63/64/65), plus datagrams of the other response kinds through the same corruptor. Oracles: uncorrupted traffic is complete exactly when every part was received, then equals the model; repeated parts change nothing; no merge error; under corruption only value-or-nothing and no panic. Non-trivial = a network fault (reorder/dup/loss/corruption) fired AND a result was checked; distinct = distinct trace hash.".into(),
            assumptions: vec![
                "clients are compared as multisets of (name, clan, country, score, player flag); in a quarter of the runs several clients share name and clan".into(),
                "the 'parsing any datagram' half is reached only through corruption of realistic traffic: sampling, not the boundary sweep of the quantifier".into(),
            ],
            real: vec!["serverbrowse::protocol::parse_response", "Info664Response / Info6ExResponse / Info6ExMoreResponse / Info5 / Info6 / Info7 ::parse", "PartialServerInfo::{merge, get_info}"],
            stub: vec!["UDP socket", "the game server (model emitting the datagrams)"],
            required_probes: vec!["probe_info_complete", "probe_info_complete_3plus_parts", "probe_other_info_parsed", "probe_corrupted_part_rejected"],
            fault_kinds: vec!["fault_reorder", "fault_duplication", "fault_loss", "fault_corruption"],
        }
    }
}
