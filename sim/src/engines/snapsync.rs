//! Engine `snapsync` (C13): the real sending `Storage` and the real receiving
//! `Manager`, used exactly as server/src/main.rs uses them, joined by a lossy
//! simulated link for snapshot messages and another one for acknowledgements.

use crate::core::*;
use crate::prng::{mix, Prng};
use libtw2_gamenet_common::snap_obj::TypeId;
use libtw2_gamenet_snap as msg;
use libtw2_packer::{with_packer, Unpacker};
use libtw2_snapshot::snap::delta_chunks;
use libtw2_snapshot::{Manager, Storage};
use serde::{Deserialize, Serialize};
use std::collections::BTreeMap;
use uuid::Uuid;

#[derive(Clone, Debug, Serialize, Deserialize)]
pub struct SyncCfg {
    pub seed: u64,
    pub first_tick: i32,
    /// number of ordinal / uuid types in the world's universe
    pub n_ordinal: u8,
    pub n_uuid: u8,
    pub max_id: u16,
    /// world changes prefer zero values / empty items (crc-neutral differences)
    #[serde(default)]
    pub zero_bias: bool,
    /// the server sends the dedicated empty-snapshot message when nothing changed since the delta base
    #[serde(default)]
    pub empty_msgs: bool,
}

#[derive(Clone, Debug, Serialize, Deserialize, PartialEq)]
#[serde(tag = "op")]
pub enum SyncOp {
    /// world changes, then the server builds and sends the snapshot of the next tick
    ServerTick { inc: u8, muts: u8, salt: u32 },
    /// the client reports its acknowledged tick (goes into the ack channel)
    ClientInput,
    DeliverSnap { pick: i32 },
    DropSnap { pick: i32 },
    DupSnap { pick: i32 },
    DeliverAck { pick: i32 },
    DropAck { pick: i32 },
    DupAck { pick: i32 },
    /// the client starts over (`Manager::reset`, e.g. map change or reconnect): it forgets every snapshot
    ClientReset,
}

type Key = (u8, u16); // (type index in the universe, id)
type WorldState = BTreeMap<Key, Vec<i32>>;

fn pick_index(len: usize, pick: i32) -> usize {
    if pick >= 0 {
        pick as usize % len
    } else {
        len - 1 - ((-(pick as i64) - 1) as usize % len)
    }
}

/// Universe of item types: index < n_ordinal -> ordinal type (index+1); else UUID type.
fn type_of(cfg: &SyncCfg, idx: u8) -> TypeId {
    if idx < cfg.n_ordinal {
        TypeId::Ordinal(idx as u16 + 1)
    } else {
        let mut r = Prng::new(mix(cfg.seed, 0x75_75_69_64, idx as u64));
        let mut b = [0u8; 16];
        r.fill(&mut b);
        TypeId::Uuid(Uuid::from_bytes(b))
    }
}

/// Fixed item size per type (in ints).
fn size_of(cfg: &SyncCfg, idx: u8) -> usize {
    let mut r = Prng::new(mix(cfg.seed, 0x73_69_7a_65, idx as u64));
    match r.below(6) {
        0 => 0,
        1 => 1,
        2 => 2,
        3 => r.range(3, 8) as usize,
        4 => r.range(8, 24) as usize,
        _ => r.range(1, 5) as usize,
    }
}

/// Pre-agreed sizes: the first two ordinal types have one; the same table on both sides.
fn object_size(cfg: &SyncCfg) -> impl FnMut(u16) -> Option<u32> + '_ {
    move |raw: u16| {
        if raw >= 1 && (raw as u8) <= cfg.n_ordinal.min(2) && raw < 0x4000 {
            Some(size_of(cfg, (raw - 1) as u8) as u32)
        } else {
            None
        }
    }
}

struct SnapMsgBytes {
    kind: u8,
    tick: i32,
    bytes: Vec<u8>,
}

pub struct SyncEngine;

fn v(class: &str, keys: &[(&str, &str)], obs: String) -> Violation {
    Violation::new("C13", class, keys, obs)
}

impl Engine for SyncEngine {
    type Cfg = SyncCfg;
    type Op = SyncOp;
    fn engine_name(&self) -> &'static str {
        "snapsync"
    }
    fn property(&self) -> &'static str {
        "C13"
    }
    fn budget(&self) -> (u64, u64) {
        (40_000, 300)
    }

    fn generate(&self, seed: u64, tier: Tier) -> Case<SyncCfg, SyncOp> {
        let mut c = Prng::stream(seed, 1);
        let mut s = Prng::stream(seed, 2);
        let fault_free = c.chance(1, 6);
        let f = |c: &mut Prng, p: u64, lo: u64, hi: u64| if !fault_free && c.chance(p, 100) { c.range(lo, hi) } else { 0 };
        let loss = f(&mut c, 55, 20, 300);
        let dup = f(&mut c, 45, 20, 250);
        let reorder = f(&mut c, 55, 50, 800);
        let ack_loss = f(&mut c, 50, 50, 600);
        let ack_dup = f(&mut c, 40, 50, 400);
        let ack_reorder = f(&mut c, 50, 100, 900);
        let ack_rare = !fault_free && c.chance(1, 5); // long stretches without acks
        let big = c.chance(1, 4); // large worlds -> multi-part snapshots
        // long stretch (> 100 ticks) in which no acknowledgement reaches the sender, after an initial acknowledged phase
        let blackout = !fault_free && c.chance(1, 12);
        let client_resets = !fault_free && c.chance(1, 6);
        let cfg = SyncCfg {
            seed: c.next_u64(),
            first_tick: *c.pick(&[0i32, 1, 7, 1000, 3_000_000]),
            n_ordinal: c.range(1, 5) as u8,
            n_uuid: *c.pick(&[0u8, 1, 2, 2, 3, 5]),
            max_id: if big { c.range(40, 200) as u16 } else { *c.pick(&[1u16, 3, 8, 20, 65535]) },
            zero_bias: blackout || c.chance(1, 8),
            empty_msgs: c.chance(1, 2),
        };
        let n_ticks = match c.below(10) {
            0..=3 => c.range(2, 8),
            4..=7 => c.range(8, 30),
            8 => c.range(30, 130),
            _ => {
                if tier == Tier::Thorough {
                    c.range(100, 300)
                } else {
                    c.range(30, 120)
                }
            }
        };
        let mut ops = Vec::new();
        let n_ticks = if blackout { if c.chance(1, 3) { c.range(150, 270) } else { c.range(108, 150) } } else { n_ticks };
        let ack_phase = if blackout { c.range(2, 6) } else { u64::MAX };
        // how much of the snapshot traffic still arrives during the blackout (per cent)
        let blackout_delivery = *c.pick(&[50u64, 50, 90, 100]);
        for tick_no in 0..n_ticks {
            if tick_no >= ack_phase {
                // blackout: snapshots keep flowing (with loss), no acknowledgement is sent
                let muts = *s.pick(&[0u8, 1, 1, 2]);
                ops.push(SyncOp::ServerTick { inc: 1, muts, salt: s.next_u64() as u32 });
                if s.chance(blackout_delivery, 100) {
                    ops.push(SyncOp::DeliverSnap { pick: 0 });
                } else {
                    ops.push(SyncOp::DropSnap { pick: 0 });
                }
                continue;
            }
            let inc = match s.below(5) {
                0 => s.range(2, 10) as u8,
                1 => s.range(1, 3) as u8,
                _ => 1,
            };
            let muts = if big { s.range(0, 60) as u8 } else { *s.pick(&[0u8, 0, 1, 1, 2, 3, 5, 12]) };
            ops.push(SyncOp::ServerTick { inc, muts, salt: s.next_u64() as u32 });
            let n = if reorder > 0 && s.chance(1, 3) { s.range(0, 2) } else { s.range(1, 4) };
            for _ in 0..n {
                if loss > 0 && s.chance(loss, 1000) {
                    ops.push(SyncOp::DropSnap { pick: -1 - s.below(3) as i32 });
                }
                if dup > 0 && s.chance(dup, 1000) {
                    ops.push(SyncOp::DupSnap { pick: s.below(16) as i32 });
                }
                let pick = if reorder > 0 && s.chance(reorder, 1000) { s.below(16) as i32 - 8 } else { 0 };
                ops.push(SyncOp::DeliverSnap { pick });
            }
            if client_resets && s.chance(1, 15) {
                ops.push(SyncOp::ClientReset);
            }
            if !(ack_rare && s.chance(9, 10)) {
                ops.push(SyncOp::ClientInput);
                if ack_loss > 0 && s.chance(ack_loss, 1000) {
                    ops.push(SyncOp::DropAck { pick: -1 });
                }
                if ack_dup > 0 && s.chance(ack_dup, 1000) {
                    ops.push(SyncOp::DupAck { pick: s.below(8) as i32 });
                }
                if !(ack_reorder > 0 && s.chance(1, 3)) {
                    let pick = if ack_reorder > 0 && s.chance(ack_reorder, 1000) { s.below(8) as i32 - 4 } else { 0 };
                    ops.push(SyncOp::DeliverAck { pick });
                }
            }
        }
        for _ in 0..s.range(0, 12) {
            ops.push(if s.chance(1, 2) { SyncOp::DeliverSnap { pick: s.below(8) as i32 } } else { SyncOp::DeliverAck { pick: s.below(8) as i32 } });
        }
        Case { cfg, ops }
    }

    fn execute(&self, case: &Case<SyncCfg, SyncOp>, ctx: &mut Ctx) -> Option<Violation> {
        let cfg = &case.cfg;
        let n_types = cfg.n_ordinal + cfg.n_uuid;
        let mut world: WorldState = BTreeMap::new();
        let mut history: BTreeMap<i32, (WorldState, i32)> = BTreeMap::new(); // tick -> (items, crc of the sender's snapshot)
        let mut sender = Storage::new();
        let mut receiver = Manager::new();
        let mut tick: i64 = cfg.first_tick as i64;
        let mut snap_wire: Vec<SnapMsgBytes> = Vec::new();
        let mut ack_wire: Vec<i32> = Vec::new();
        let mut delta_buf: Vec<u8> = Vec::new();
        let mut accepted_ticks = 0u32;
        for op in &case.ops {
            ctx.ops_executed += 1;
            match *op {
                SyncOp::ServerTick { inc, muts, salt } => {
                    ctx.t(1);
                    tick += inc.max(1) as i64;
                    let t = tick as i32;
                    // --- world changes
                    let mut r = Prng::new(mix(cfg.seed, salt as u64, t as u64));
                    for _ in 0..muts {
                        let ty = r.below(n_types as u64) as u8;
                        let id = if cfg.max_id == 65535 { *r.pick(&[0u16, 1, 255, 256, 32767, 32768, 65535]) } else { r.below(cfg.max_id as u64 + 1) as u16 };
                        let key = (ty, id);
                        let sz = size_of(cfg, ty);
                        match r.below(4) {
                            0 => {
                                world.remove(&key);
                            }
                            1 if world.contains_key(&key) => {
                                // small change of one field: wrapping differences at the extremes
                                let e = world.get_mut(&key).unwrap();
                                if !e.is_empty() {
                                    let i = r.usize_below(e.len());
                                    e[i] = match r.below(4) {
                                        0 => e[i].wrapping_add(1),
                                        1 => e[i].wrapping_neg(),
                                        2 => r.i32_edge(),
                                        _ => e[i].wrapping_sub(i32::MAX),
                                    };
                                }
                            }
                            _ => {
                                let data: Vec<i32> = (0..sz).map(|_| if cfg.zero_bias && r.chance(3, 4) { 0 } else { r.i32_edge() }).collect();
                                world.insert(key, data);
                            }
                        }
                    }
                    // --- the server's call order
                    let w2 = world.clone();
                    let send_empty = cfg.empty_msgs;
                    let res = guard(|| {
                        let mut builder = sender.new_builder();
                        let delta_tick = sender.delta_tick().unwrap_or(-1);
                        let mut refused: Vec<Key> = Vec::new();
                        for (&(ty, id), data) in &w2 {
                            if builder.add_item(type_of(cfg, ty), id, data).is_err() {
                                refused.push((ty, id));
                            }
                        }
                        let snap = builder.finish();
                        let crc = snap.crc();
                        let delta = sender.add_snap(t, snap);
                        delta_buf.clear();
                        delta_buf.reserve(64 * 1024);
                        with_packer(&mut delta_buf, |p| delta.write(object_size(cfg), p).map(|_| ())).expect("delta fits 64 KiB");
                        let mut out: Vec<SnapMsgBytes> = Vec::new();
                        // a server sends the dedicated empty message when nothing changed since the delta base
                        // (decided on the real delta: no removed and no updated items, i.e. the three-zero header only)
                        let unchanged = send_empty && delta_buf == [0u8, 0, 0];
                        let payload: &[u8] = if unchanged { &[] } else { &delta_buf };
                        for m in delta_chunks(t, delta_tick, payload, crc) {
                            let mut buf: Vec<u8> = Vec::with_capacity(1024);
                            let kind = match m {
                                msg::SnapMsg::SnapEmpty(e) => {
                                    with_packer(&mut buf, |p| e.encode(p).map(|_| ())).unwrap();
                                    0u8
                                }
                                msg::SnapMsg::SnapSingle(e) => {
                                    with_packer(&mut buf, |p| e.encode(p).map(|_| ())).unwrap();
                                    1
                                }
                                msg::SnapMsg::Snap(e) => {
                                    with_packer(&mut buf, |p| e.encode(p).map(|_| ())).unwrap();
                                    2
                                }
                            };
                            out.push(SnapMsgBytes { kind, tick: t, bytes: buf });
                        }
                        (out, crc, delta_tick, refused, delta_buf.len())
                    });
                    let (out, crc, delta_tick, refused, dlen) = match res {
                        Ok(x) => x,
                        Err(p) => {
                            return Some(v("panic", &[("side", "sender"), ("message", &p.msg_class()), ("file", &p.file_class())], format!("sender panicked building tick {}: {} at {}:{}", t, p.msg, p.file, p.line)));
                        }
                    };
                    let mut items = world.clone();
                    for k in &refused {
                        // the builder refused the item (snapshot limits): it is not part of what was sent
                        items.remove(k);
                        ctx.count("probe_builder_refused_item");
                    }
                    ctx.logf(|| format!("server tick {}: {} items, delta base {} ({} bytes, {} message(s)), crc {}", t, items.len(), delta_tick, dlen, out.len(), crc));
                    if out.len() > 1 {
                        ctx.count("probe_multipart_snapshot");
                    }
                    if out.len() == 1 && out[0].kind == 0 {
                        ctx.count("probe_empty_snapshot_message");
                    }
                    if delta_tick >= 0 {
                        ctx.count("probe_delta_against_acked");
                    }
                    if items.keys().any(|k| k.0 >= cfg.n_ordinal) {
                        ctx.count("probe_snapshot_with_uuid_items");
                    }
                    history.insert(t, (items, crc));
                    snap_wire.extend(out);
                }
                SyncOp::ClientInput => {
                    ctx.t(2);
                    let a = receiver.ack_tick().unwrap_or(-1);
                    ack_wire.push(a);
                    ctx.logf(|| format!("client input: ack {}", a));
                }
                SyncOp::ClientReset => {
                    ctx.t(9);
                    if let Err(p) = guard(|| receiver.reset()) {
                        return Some(v("panic", &[("side", "receiver"), ("message", &p.msg_class()), ("file", &p.file_class())], format!("Manager::reset panicked: {} at {}:{}", p.msg, p.file, p.line)));
                    }
                    ctx.count("fault_client_reset");
                    ctx.fault_inflight = true;
                    ctx.logf(|| "client reset (forgets every snapshot)".into());
                }
                SyncOp::DropSnap { pick } => {
                    ctx.t(3);
                    if snap_wire.is_empty() {
                        continue;
                    }
                    let i = pick_index(snap_wire.len(), pick);
                    let m = snap_wire.remove(i);
                    ctx.count("fault_snap_loss");
                    ctx.fault_inflight = true;
                    ctx.logf(|| format!("link drops a snapshot message of tick {}", m.tick));
                }
                SyncOp::DupSnap { pick } => {
                    ctx.t(4);
                    if snap_wire.is_empty() || snap_wire.len() > 3000 {
                        continue;
                    }
                    let i = pick_index(snap_wire.len(), pick);
                    let c = SnapMsgBytes { kind: snap_wire[i].kind, tick: snap_wire[i].tick, bytes: snap_wire[i].bytes.clone() };
                    snap_wire.push(c);
                    ctx.count("fault_snap_duplication");
                    ctx.fault_inflight = true;
                }
                SyncOp::DropAck { pick } => {
                    ctx.t(5);
                    if ack_wire.is_empty() {
                        continue;
                    }
                    let i = pick_index(ack_wire.len(), pick);
                    ack_wire.remove(i);
                    ctx.count("fault_ack_loss");
                    ctx.fault_inflight = true;
                }
                SyncOp::DupAck { pick } => {
                    ctx.t(6);
                    if ack_wire.is_empty() || ack_wire.len() > 3000 {
                        continue;
                    }
                    let i = pick_index(ack_wire.len(), pick);
                    let a = ack_wire[i];
                    ack_wire.push(a);
                    ctx.count("fault_ack_duplication");
                    ctx.fault_inflight = true;
                }
                SyncOp::DeliverAck { pick } => {
                    ctx.t(7);
                    if ack_wire.is_empty() {
                        continue;
                    }
                    let i = pick_index(ack_wire.len(), pick);
                    if i != 0 {
                        ctx.count("fault_ack_reorder");
                        ctx.fault_inflight = true;
                    }
                    let a = ack_wire.remove(i);
                    let mut w: Vec<libtw2_snapshot::storage::WeirdNegativeDeltaTick> = Vec::new();
                    let r = guard(|| sender.set_delta_tick(&mut w, a));
                    match r {
                        Err(p) => return Some(v("panic", &[("side", "sender"), ("message", &p.msg_class()), ("file", &p.file_class())], format!("sender panicked in set_delta_tick({}): {} at {}:{}", a, p.msg, p.file, p.line))),
                        Ok(Err(_)) => {
                            ctx.count("probe_ack_for_dropped_snapshot");
                            ctx.logf(|| format!("server: ack {} -> UnknownSnap", a));
                        }
                        Ok(Ok(())) => {
                            ctx.logf(|| format!("server: ack {} ok", a));
                        }
                    }
                }
                SyncOp::DeliverSnap { pick } => {
                    ctx.t(8);
                    if snap_wire.is_empty() {
                        continue;
                    }
                    let i = pick_index(snap_wire.len(), pick);
                    if i != 0 {
                        ctx.count("fault_snap_reorder");
                        ctx.fault_inflight = true;
                    }
                    let m = snap_wire.remove(i);
                    let ack_before = receiver.ack_tick();
                    let mut warns: Vec<libtw2_snapshot::manager::Warning> = Vec::new();
                    let mut pw: Vec<libtw2_packer::Warning> = Vec::new();
                    // Compare inside the guarded closure: the accepted snapshot borrows the manager.
                    let hist = &history;
                    let res = guard(|| {
                        let mut up = Unpacker::new(&m.bytes);
                        let r = match m.kind {
                            0 => receiver.snap_empty(&mut warns, object_size(cfg), msg::SnapEmpty::decode(&mut pw, &mut up).unwrap_or_else(|e| panic!("TW2SIM-DECODE a message produced by the real encoder failed to decode: {:?}", e))),
                            1 => receiver.snap_single(&mut warns, object_size(cfg), msg::SnapSingle::decode(&mut pw, &mut up).unwrap_or_else(|e| panic!("TW2SIM-DECODE a message produced by the real encoder failed to decode: {:?}", e))),
                            _ => receiver.snap(&mut warns, object_size(cfg), msg::Snap::decode(&mut pw, &mut up).unwrap_or_else(|e| panic!("TW2SIM-DECODE a message produced by the real encoder failed to decode: {:?}", e))),
                        };
                        match r {
                            Err(e) => Err(format!("{:?}", e)),
                            Ok(None) => Ok(None),
                            Ok(Some(snap)) => {
                                // (1) enumerate
                                let mut got: BTreeMap<(TypeId, u16), Vec<i32>> = BTreeMap::new();
                                let mut dup_enum = false;
                                let it = snap.items();
                                let announced = it.len();
                                let mut n = 0usize;
                                for item in it {
                                    n += 1;
                                    if got.insert((item.type_id, item.id), item.data.to_vec()).is_some() {
                                        dup_enum = true;
                                    }
                                }
                                // (2) look every model item up
                                let mut lookup_mismatch: Option<String> = None;
                                if let Some((items, _)) = hist.get(&m.tick) {
                                    for (&(ty, id), data) in items {
                                        let tid = type_of(cfg, ty);
                                        match snap.item(tid, id) {
                                            Some(d) if d == &data[..] => {}
                                            other => {
                                                lookup_mismatch = Some(format!("item(type {:?}, id {}) returned {:?}, the sender stored {:?}", tid, id, other.map(|d| d.to_vec()), data));
                                                break;
                                            }
                                        }
                                    }
                                }
                                Ok(Some((got, announced, n, dup_enum, lookup_mismatch, snap.crc())))
                            }
                        }
                    });
                    ctx.oracle_event = true;
                    let res = match res {
                        Ok(r) => r,
                        Err(p) if p.msg.starts_with("TW2SIM-DECODE") => return Some(v("valid-message-rejected-by-decoder", &[], format!("message of tick {}: {}", m.tick, p.msg))),
                        Err(p) => return Some(v("panic", &[("side", "receiver"), ("message", &p.msg_class()), ("file", &p.file_class())], format!("receiver panicked on a message of tick {}: {} at {}:{}", m.tick, p.msg, p.file, p.line))),
                    };
                    match res {
                        Err(e) => {
                            ctx.t(20);
                            ctx.count("probe_receiver_error");
                            let after = receiver.ack_tick();
                            ctx.logf(|| format!("deliver snapshot message of tick {} -> Err({}) ack {:?} -> {:?}", m.tick, e, ack_before, after));
                            if after != ack_before && after.is_some() {
                                return Some(v("ack-advanced-on-error", &[("error", &e.chars().take(40).collect::<String>())], format!("receiver reported {} for tick {} but its acknowledged tick moved {:?} -> {:?}", e, m.tick, ack_before, after)));
                            }
                        }
                        Ok(None) => {
                            ctx.t(21);
                            ctx.logf(|| format!("deliver snapshot message of tick {} -> in progress", m.tick));
                        }
                        Ok(Some((got, announced, n, dup_enum, lookup_mismatch, crc))) => {
                            ctx.t(22);
                            accepted_ticks += 1;
                            ctx.count("probe_snapshot_accepted");
                            ctx.logf(|| format!("deliver snapshot message of tick {} -> accepted ({} items)", m.tick, n));
                            let (items, sent_crc) = match history.get(&m.tick) {
                                Some(h) => h,
                                None => return Some(v("accepted-unknown-tick", &[], format!("receiver accepted tick {} which the sender never built", m.tick))),
                            };
                            let want: BTreeMap<(TypeId, u16), Vec<i32>> = items.iter().map(|(&(ty, id), d)| ((type_of(cfg, ty), id), d.clone())).collect();
                            if got != want || dup_enum || announced != n {
                                let missing: Vec<_> = want.keys().filter(|k| !got.contains_key(k)).take(3).collect();
                                let extra: Vec<_> = got.keys().filter(|k| !want.contains_key(k)).take(3).collect();
                                let differing: Vec<_> = want.iter().filter(|(k, d)| got.get(k).map(|g| g != *d).unwrap_or(false)).map(|(k, _)| k).take(3).collect();
                                return Some(v("accepted-snapshot-differs", &[("how", if !missing.is_empty() { "items-missing" } else if !extra.is_empty() { "extra-items" } else if !differing.is_empty() { "data-differs" } else { "enumeration-count" })], format!("receiver accepted tick {} but items() differs from the sender's snapshot: {} enumerated / {} announced / {} sent; missing {:?} extra {:?} differing {:?}", m.tick, n, announced, want.len(), missing, extra, differing)));
                            }
                            if let Some(l) = lookup_mismatch {
                                let uuid = l.contains("Uuid") || l.contains('-');
                                return Some(v("accepted-snapshot-lookup-differs", &[("type", if uuid { "uuid" } else { "ordinal" })], format!("receiver accepted tick {}; items() agrees with the sender but {}", m.tick, l)));
                            }
                            if crc != *sent_crc {
                                return Some(v("accepted-snapshot-crc-differs", &[], format!("receiver accepted tick {} with crc {} but the sender's snapshot has crc {}", m.tick, crc, sent_crc)));
                            }
                            if receiver.ack_tick() != Some(m.tick) {
                                return Some(v("ack-not-at-accepted-tick", &[], format!("receiver accepted tick {} but reports ack {:?}", m.tick, receiver.ack_tick())));
                            }
                            if !items.is_empty() && items.keys().any(|k| k.0 >= cfg.n_ordinal) {
                                ctx.count("probe_accepted_with_uuid_items");
                            }
                        }
                    }
                    if !warns.is_empty() || !pw.is_empty() {
                        ctx.count("probe_receiver_warning");
                    }
                    ctx.state(((accepted_ticks.min(7) as u64) << 4) | (receiver.ack_tick().is_some() as u64) << 1 | sender.delta_tick().is_some() as u64);
                }
            }
        }
        None
    }

    fn simplify_op(&self, op: &SyncOp) -> Vec<SyncOp> {
        let mut v = Vec::new();
        match *op {
            SyncOp::ServerTick { inc, muts, salt } => {
                if muts > 0 {
                    v.push(SyncOp::ServerTick { inc, muts: 0, salt });
                    v.push(SyncOp::ServerTick { inc, muts: muts / 2, salt });
                    v.push(SyncOp::ServerTick { inc, muts: muts - 1, salt });
                }
                if inc > 1 {
                    v.push(SyncOp::ServerTick { inc: 1, muts, salt });
                }
            }
            SyncOp::DeliverSnap { pick } if pick != 0 => v.push(SyncOp::DeliverSnap { pick: 0 }),
            SyncOp::DeliverAck { pick } if pick != 0 => v.push(SyncOp::DeliverAck { pick: 0 }),
            _ => {}
        }
        v
    }
    fn simplify_cfg(&self, cfg: &SyncCfg) -> Vec<SyncCfg> {
        let mut v = Vec::new();
        if cfg.first_tick != 0 {
            v.push(SyncCfg { first_tick: 0, ..cfg.clone() });
        }
        if cfg.max_id > 3 {
            v.push(SyncCfg { max_id: 3, ..cfg.clone() });
        }
        v
    }
    fn info(&self) -> EngineInfo {
        EngineInfo {
            rule: "one run = a world history (items of ordinal and UUID types appearing, changing, vanishing; small and multi-part snapshots; extreme values) driven through the real sending Storage (new_builder, delta_tick, add_snap, Delta::write, delta_chunks) and the real receiving Manager over a link that loses, duplicates and reorders snapshot messages and acknowledgements. Every accepted snapshot is compared item for item (enumeration, lookup by type and id incl. UUID types, crc) with the sender's model history; every error must not advance the acknowledged tick. Non-trivial = a link fault fired in flight AND at least one receiver answer was checked; distinct = distinct trace hash.".into(),
            assumptions: vec![
                "the sender follows the server's call order (new_builder, delta_tick, build, add_snap, split, send; set_delta_tick only between ticks)".into(),
                "item sizes are fixed per type; both sides use the same pre-agreed size table".into(),
                "acknowledgements carry what Manager::ack_tick() returned at input time (as the client does)".into(),
            ],
            real: vec!["snapshot::Storage", "snapshot::snap::{Builder,Snap,Delta,delta_chunks}", "snapshot::Manager", "snapshot::DeltaReceiver", "gamenet_snap message codecs", "packer"],
            stub: vec!["connection layer (two simulated lossy links)", "game world (model)"],
            required_probes: vec!["probe_snapshot_accepted", "probe_multipart_snapshot", "probe_delta_against_acked", "probe_accepted_with_uuid_items", "probe_ack_for_dropped_snapshot", "probe_receiver_error", "probe_empty_snapshot_message"],
            fault_kinds: vec!["fault_snap_loss", "fault_snap_duplication", "fault_snap_reorder", "fault_ack_loss", "fault_ack_duplication", "fault_ack_reorder", "fault_client_reset"],
        }
    }
}
