//! Engine `snapxfer` (C12): real sender split (`delta_chunks`), real message
//! encode/decode, real `DeltaReceiver`; the connection underneath is a
//! simulated channel that loses, duplicates and reorders messages and
//! interleaves the parts of several ticks.

use crate::core::*;
use crate::prng::{mix, Prng};
use libtw2_gamenet_snap as msg;
use libtw2_packer::{with_packer, Unpacker};
use libtw2_snapshot::receiver::DeltaReceiver;
use libtw2_snapshot::snap::delta_chunks;
use serde::{Deserialize, Serialize};
use std::collections::BTreeSet;

#[derive(Clone, Debug, Serialize, Deserialize)]
pub struct XferCfg {
    pub seed: u64,
    pub first_tick: i32,
}

#[derive(Clone, Debug, Serialize, Deserialize, PartialEq)]
#[serde(tag = "op")]
pub enum XferOp {
    /// The sender produces the messages of the next tick (tick += inc) and hands them to the channel.
    NewTick { inc: u16, base: i32, len: u32, salt: u32 },
    Deliver { pick: i32 },
    Drop { pick: i32 },
    Dup { pick: i32 },
    /// the client starts over (`DeltaReceiver::reset`, e.g. map change): from here on it must behave like a new receiver
    Reset,
    /// retransmission storm: the sender repeats every part of the latest tick `times` more times, except
    /// that part number `missing` keeps getting lost (so the transfer stays incomplete while duplicates pile up)
    Storm { times: u8, missing: u8 },
    /// the application copies the receiver (`Clone`, e.g. to keep a state to roll back to) and goes on with the
    /// copy; the copy must behave exactly like the original, also in the middle of a transfer
    Fork,
}

struct Transfer {
    tick: i32,
    base: i32,
    crc: i32,
    data: Vec<u8>,
    num_parts: usize,
    completed: u32,
}

struct InFlight {
    transfer: usize,
    part: usize,
    kind: u8, // 0 empty, 1 single, 2 part
    bytes: Vec<u8>,
}

pub struct XferEngine;

fn pick_index(len: usize, pick: i32) -> usize {
    if pick >= 0 {
        pick as usize % len
    } else {
        len - 1 - ((-(pick as i64) - 1) as usize % len)
    }
}

impl XferEngine {
    fn v(class: &str, keys: &[(&str, &str)], obs: String) -> Violation {
        Violation::new("C12", class, keys, obs)
    }
}

impl Engine for XferEngine {
    type Cfg = XferCfg;
    type Op = XferOp;
    fn engine_name(&self) -> &'static str {
        "snapxfer"
    }
    fn property(&self) -> &'static str {
        "C12"
    }
    fn budget(&self) -> (u64, u64) {
        (250_000, 240)
    }
    fn generate(&self, seed: u64, _tier: Tier) -> Case<XferCfg, XferOp> {
        let mut c = Prng::stream(seed, 1);
        let mut s = Prng::stream(seed, 2);
        let fault_free = c.chance(1, 6);
        let loss = if !fault_free && c.chance(1, 2) { c.range(20, 250) } else { 0 };
        let dup = if !fault_free && c.chance(1, 2) { c.range(20, 300) } else { 0 };
        let reorder = if !fault_free && c.chance(3, 4) { c.range(100, 1000) } else { 0 };
        let interleave = !fault_free && c.chance(1, 2);
        let first_tick = match c.below(6) {
            0 => 0,
            // the first transfer of a fresh receiver is for tick 0 or a negative tick (ticks are arbitrary i32 values)
            5 => *c.pick(&[0i32, 0, -1, -2, -1000, i32::MIN + 10, i32::MIN + 5000, -50_000_000]),
            1 => c.range(1, 100) as i32,
            2 => c.range(100_000, 50_000_000) as i32,
            3 => i32::MAX - if c.chance(1, 2) { c.range(0, 20) as i32 } else { c.range(0, 40_000) as i32 },
            _ => c.range(1, 5000) as i32,
        };
        let n_ticks = match c.below(6) {
            0 => 1,
            1 | 2 => c.range(2, 4),
            _ => c.range(3, 12),
        };
        let len_profile = c.below(5);
        let resets = c.chance(1, 5);
        let forks = c.chance(1, 5);
        let storm = c.chance(1, 8);
        let mut ops = Vec::new();
        let mut tick = first_tick as i64;
        for t in 0..n_ticks {
            let inc = match s.below(4) {
                0 => 1,
                1 => s.range(1, 5),
                2 => s.range(1, 50),
                _ => s.range(1, 3000),
            } as u16;
            tick += inc as i64;
            let base = match s.below(6) {
                0 | 1 => -1,
                2 => -(s.range(2, 1000) as i32),
                3 => (tick - 1) as i32,
                4 => s.range(0, tick.max(2) as u64 - 1) as i32,
                _ => (tick - s.range(1, 100).min(tick.max(1) as u64) as i64) as i32,
            };
            let len = match len_profile {
                0 => *s.pick(&[0u32, 1, 899, 900, 901, 1799, 1800, 1801, 2700, 2701, 28799, 28800]),
                1 => s.range(0, 900) as u32,
                2 => s.range(901, 5000) as u32,
                3 => s.range(5000, 28800) as u32,
                _ => match s.below(4) {
                    0 => 0,
                    1 => s.range(1, 900) as u32,
                    2 => s.range(901, 4000) as u32,
                    _ => 900 * s.range(1, 32) as u32 + *s.pick(&[0u32, 0, 1]) * (s.below(2) as u32),
                },
            }
            .min(28800);
            ops.push(XferOp::NewTick { inc, base, len, salt: s.next_u64() as u32 });
            // deliver (some of) what is in flight; with `interleave` parts of the previous tick stay behind
            let mut parts = ((len as usize + 899) / 900).max(1);
            if storm && parts >= 2 && s.chance(1, 2) {
                let times = s.range(1, 5) as u8;
                ops.push(XferOp::Storm { times, missing: s.below(64) as u8 });
                parts *= 1 + times as usize;
            }
            let deliveries = if interleave && t + 1 < n_ticks && s.chance(1, 2) { s.usize_below(parts + 1) } else { parts + s.usize_below(3) };
            for _ in 0..deliveries {
                if resets && s.chance(1, 25) {
                    ops.push(XferOp::Reset);
                }
                if forks && s.chance(1, 12) {
                    ops.push(XferOp::Fork);
                }
                if loss > 0 && s.chance(loss, 1000) {
                    ops.push(XferOp::Drop { pick: s.below(64) as i32 });
                }
                if dup > 0 && s.chance(dup, 1000) {
                    ops.push(XferOp::Dup { pick: if s.chance(1, 2) { -1 - s.below(8) as i32 } else { s.below(64) as i32 } });
                }
                let pick = if reorder > 0 && s.chance(reorder, 1000) { if s.chance(1, 2) { s.below(64) as i32 } else { -1 - s.below(64) as i32 } } else { 0 };
                ops.push(XferOp::Deliver { pick });
            }
        }
        // drain: late duplicates and stragglers of old ticks
        let tail = s.range(0, 40);
        for _ in 0..tail {
            if dup > 0 && s.chance(dup, 1000) {
                ops.push(XferOp::Dup { pick: s.below(64) as i32 });
            }
            ops.push(XferOp::Deliver { pick: if reorder > 0 { s.below(64) as i32 } else { 0 } });
        }
        Case { cfg: XferCfg { seed: c.next_u64(), first_tick }, ops }
    }

    fn execute(&self, case: &Case<XferCfg, XferOp>, ctx: &mut Ctx) -> Option<Violation> {
        let mut transfers: Vec<Transfer> = Vec::new();
        let mut wire: Vec<InFlight> = Vec::new();
        let mut recv = DeltaReceiver::new();
        let mut tick: i64 = case.cfg.first_tick as i64;
        // reference model of "which transfer may complete"
        let mut newest_seen: Option<i32> = None; // newest tick of any message fed
        let mut newest_completed: Option<i32> = None;
        let mut cur_parts: BTreeSet<usize> = BTreeSet::new(); // distinct parts of `newest_seen` fed since it became newest
        let mut cur_done = false;
        for op in &case.ops {
            ctx.ops_executed += 1;
            match *op {
                XferOp::NewTick { inc, base, len, salt } => {
                    ctx.t(1);
                    if tick >= i32::MAX as i64 {
                        continue;
                    }
                    // the last representable tick is reached exactly (not jumped over)
                    // (a non-positive first tick is itself the tick of the first transfer)
                    if !(transfers.is_empty() && tick <= 0 && tick == case.cfg.first_tick as i64) {
                        tick = (tick + inc.max(1) as i64).min(i32::MAX as i64);
                    }
                    let t = tick as i32;
                    let base = base.max(-100_000);
                    let base = if base >= t { t - 1 } else { base };
                    // the wire field is tick - base: keep it representable
                    let base = (base as i64).max(tick - i32::MAX as i64) as i32;
                    let mut r = Prng::new(mix(case.cfg.seed, salt as u64, transfers.len() as u64));
                    let mut data = r.bytes(len.min(28800) as usize);
                    if data.len() >= 8 {
                        data[..4].copy_from_slice(&t.to_le_bytes());
                        data[4..8].copy_from_slice(&(transfers.len() as u32).to_le_bytes());
                    }
                    let crc = r.i32_any();
                    let idx = transfers.len();
                    let mut n = 0usize;
                    let msgs = match guard(|| {
                        let mut out: Vec<(u8, usize, Vec<u8>)> = Vec::new();
                        for m in delta_chunks(t, base, &data, crc) {
                            let mut buf: Vec<u8> = Vec::with_capacity(1024);
                            let (kind, part) = match m {
                                msg::SnapMsg::SnapEmpty(e) => {
                                    with_packer(&mut buf, |p| e.encode(p).map(|_| ())).unwrap();
                                    (0u8, 0usize)
                                }
                                msg::SnapMsg::SnapSingle(e) => {
                                    with_packer(&mut buf, |p| e.encode(p).map(|_| ())).unwrap();
                                    (1, 0)
                                }
                                msg::SnapMsg::Snap(e) => {
                                    with_packer(&mut buf, |p| e.encode(p).map(|_| ())).unwrap();
                                    (2, e.part as usize)
                                }
                            };
                            out.push((kind, part, buf));
                        }
                        out
                    }) {
                        Ok(m) => m,
                        Err(p) => return Some(Self::v("panic", &[("where", "delta_chunks/encode"), ("message", &p.msg_class()), ("file", &p.file_class())], format!("sender side panicked: {} at {}:{}", p.msg, p.file, p.line))),
                    };
                    for (kind, part, bytes) in msgs {
                        n += 1;
                        wire.push(InFlight { transfer: idx, part, kind, bytes });
                    }
                    ctx.logf(|| format!("sender: tick {} base {} data {} bytes crc {} -> {} message(s)", t, base, data.len(), crc, n));
                    ctx.count(match n {
                        1 => "probe_transfer_single_message",
                        2..=4 => "probe_transfer_2_4_parts",
                        _ => "probe_transfer_5plus_parts",
                    });
                    transfers.push(Transfer { tick: t, base, crc, data, num_parts: n, completed: 0 });
                }
                XferOp::Storm { times, missing } => {
                    ctx.t(6);
                    if let Some(idx) = transfers.len().checked_sub(1) {
                        let np = transfers[idx].num_parts;
                        let miss = missing as usize % np.max(1);
                        let originals: Vec<InFlight> = wire.iter().filter(|m| m.transfer == idx && m.part != miss).map(|m| InFlight { transfer: m.transfer, part: m.part, kind: m.kind, bytes: m.bytes.clone() }).collect();
                        if np >= 2 && !originals.is_empty() && wire.len() < 2000 {
                            wire.retain(|m| !(m.transfer == idx && m.part == miss));
                            for _ in 0..times.min(6) {
                                for m in &originals {
                                    wire.push(InFlight { transfer: m.transfer, part: m.part, kind: m.kind, bytes: m.bytes.clone() });
                                    ctx.count("fault_duplication");
                                }
                            }
                            ctx.count("fault_loss");
                            ctx.count("probe_retransmission_storm");
                            ctx.fault_inflight = true;
                            ctx.logf(|| format!("storm: tick {} repeated {} times without part {}", transfers[idx].tick, times, miss));
                        }
                    }
                }
                XferOp::Fork => {
                    ctx.t(6);
                    if !cur_parts.is_empty() && !cur_done {
                        ctx.count("probe_fork_mid_transfer");
                    }
                    match guard(|| recv.clone()) {
                        Ok(copy) => recv = copy,
                        Err(p) => return Some(Self::v("panic", &[("where", "clone"), ("message", &p.msg_class()), ("file", &p.file_class())], format!("clone panicked: {} at {}:{}", p.msg, p.file, p.line))),
                    }
                }
                XferOp::Reset => {
                    ctx.t(5);
                    if !cur_parts.is_empty() && !cur_done {
                        ctx.count("probe_reset_mid_transfer");
                    }
                    ctx.count("probe_reset");
                    if let Err(p) = guard(|| recv.reset()) {
                        return Some(Self::v("panic", &[("where", "reset"), ("message", &p.msg_class()), ("file", &p.file_class())], format!("reset panicked: {} at {}:{}", p.msg, p.file, p.line)));
                    }
                    newest_seen = None;
                    newest_completed = None;
                    cur_parts.clear();
                    cur_done = false;
                    for t in transfers.iter_mut() {
                        t.completed = 0;
                    }
                    ctx.logf(|| "receiver reset".into());
                }
                XferOp::Drop { pick } => {
                    ctx.t(2);
                    if wire.is_empty() {
                        continue;
                    }
                    let i = pick_index(wire.len(), pick);
                    let m = wire.remove(i);
                    ctx.count("fault_loss");
                    ctx.fault_inflight = true;
                    ctx.logf(|| format!("channel drops tick {} part {}", transfers[m.transfer].tick, m.part));
                }
                XferOp::Dup { pick } => {
                    ctx.t(3);
                    if wire.is_empty() || wire.len() > 2000 {
                        continue;
                    }
                    let i = pick_index(wire.len(), pick);
                    let c = InFlight { transfer: wire[i].transfer, part: wire[i].part, kind: wire[i].kind, bytes: wire[i].bytes.clone() };
                    ctx.logf(|| format!("channel duplicates tick {} part {}", transfers[c.transfer].tick, c.part));
                    // the copy may arrive any time later: put it at a position derived from pick
                    let at = pick_index(wire.len() + 1, pick.wrapping_mul(7).wrapping_add(3));
                    wire.insert(at, c);
                    ctx.count("fault_duplication");
                    ctx.fault_inflight = true;
                }
                XferOp::Deliver { pick } => {
                    ctx.t(4);
                    if wire.is_empty() {
                        continue;
                    }
                    let i = pick_index(wire.len(), pick);
                    if i != 0 {
                        ctx.count("fault_reorder");
                        ctx.fault_inflight = true;
                    }
                    let m = wire.remove(i);
                    let tr = &transfers[m.transfer];
                    let t = tr.tick;
                    // --- reference model: what may / must happen
                    let older_than_newest = newest_seen.map(|n| t < n).unwrap_or(false);
                    if older_than_newest {
                        ctx.count("probe_old_tick_message");
                    }
                    if newest_seen.map(|n| t > n).unwrap_or(true) {
                        if newest_seen.is_some() && !cur_done && !cur_parts.is_empty() {
                            ctx.count("probe_transfer_superseded");
                        }
                        newest_seen = Some(t);
                        cur_parts.clear();
                        cur_done = false;
                    }
                    let mut must_complete = false;
                    let mut may_complete = false;
                    if newest_seen == Some(t) && !cur_done && newest_completed.map(|c| t > c).unwrap_or(true) {
                        if !cur_parts.insert(m.part) {
                            ctx.count("probe_duplicate_part_fed");
                        }
                        if cur_parts.len() == tr.num_parts {
                            must_complete = true;
                            may_complete = true;
                        }
                    } else if newest_seen == Some(t) && cur_done {
                        ctx.count("probe_duplicate_after_completion");
                    }
                    // --- the real receiver
                    let mut warns: Vec<libtw2_snapshot::receiver::Warning> = Vec::new();
                    let mut pw: Vec<libtw2_packer::Warning> = Vec::new();
                    let bytes = m.bytes.clone();
                    let res = guard(|| {
                        let mut up = Unpacker::new(&bytes);
                        let r = match m.kind {
                            0 => recv.snap_empty(&mut warns, msg::SnapEmpty::decode(&mut pw, &mut up).unwrap_or_else(|e| panic!("TW2SIM-DECODE a message produced by the real encoder failed to decode: {:?}", e))),
                            1 => recv.snap_single(&mut warns, msg::SnapSingle::decode(&mut pw, &mut up).unwrap_or_else(|e| panic!("TW2SIM-DECODE a message produced by the real encoder failed to decode: {:?}", e))),
                            _ => recv.snap(&mut warns, msg::Snap::decode(&mut pw, &mut up).unwrap_or_else(|e| panic!("TW2SIM-DECODE a message produced by the real encoder failed to decode: {:?}", e))),
                        };
                        r.map(|o| o.map(|rd| (rd.tick, rd.delta_tick, rd.data_and_crc.map(|(d, c)| (d.to_vec(), c)))))
                    });
                    ctx.oracle_event = true;
                    let res = match res {
                        Ok(r) => r,
                        Err(p) if p.msg.starts_with("TW2SIM-DECODE") => return Some(Self::v("valid-message-rejected-by-decoder", &[], format!("tick {} part {}/{} ({} data bytes): {}", t, m.part, tr.num_parts, tr.data.len(), p.msg))),
                        Err(p) => return Some(Self::v("panic", &[("where", "receiver"), ("message", &p.msg_class()), ("file", &p.file_class())], format!("receiver panicked on tick {} part {}: {} at {}:{}", t, m.part, p.msg, p.file, p.line))),
                    };
                    ctx.logf(|| format!("deliver tick {} part {}/{} -> {}", t, m.part, tr.num_parts, match &res { Ok(Some(_)) => "Ok(Some)".to_string(), Ok(None) => "Ok(None)".into(), Err(e) => format!("Err({:?})", e) }));
                    if !warns.is_empty() || !pw.is_empty() {
                        return Some(Self::v("warning-on-consistent-transfer", &[("warning", &format!("{:?}{:?}", warns, pw))], format!("receiver warned {:?} {:?} although only consistent messages were fed (tick {} base {} part {}/{})", warns, pw, t, tr.base, m.part, tr.num_parts)));
                    }
                    let res_kind: u64 = match &res { Ok(Some(_)) => 11, Ok(None) => 12, Err(_) => 13 };
                    match res {
                        Ok(Some((rt, rbase, dc))) => {
                            ctx.count("probe_completed");
                            if !may_complete {
                                let why = if older_than_newest { "older-than-newest-seen" } else if cur_done || tr.completed > 0 { "completed-twice" } else { "incomplete" };
                                return Some(Self::v("unexpected-completion", &[("why", why)], format!("receiver completed tick {} on part {}/{} although it must not ({}): newest seen {:?}, newest completed {:?}", rt, m.part, tr.num_parts, why, newest_seen, newest_completed)));
                            }
                            let (d, c) = match dc {
                                Some((d, c)) => (d, Some(c)),
                                None => (Vec::new(), None),
                            };
                            if rt != t || rbase != tr.base || d != tr.data || (tr.num_parts >= 1 && !tr.data.is_empty() && c != Some(tr.crc)) {
                                let what = if rt != t { "tick" } else if rbase != tr.base { "base-tick" } else if d != tr.data { "data" } else { "crc" };
                                return Some(Self::v("wrong-reassembly", &[("what", what)], format!("receiver handed out tick {} base {} crc {:?} data {} bytes; sent was tick {} base {} crc {} data {} bytes (first difference at byte {:?})", rt, rbase, c, d.len(), t, tr.base, tr.crc, tr.data.len(), d.iter().zip(tr.data.iter()).position(|(a, b)| a != b))));
                            }
                            transfers[m.transfer].completed += 1;
                            cur_done = true;
                            newest_completed = Some(t);
                            if tr_parts(&transfers[m.transfer]) >= 2 {
                                ctx.count("probe_completed_multipart");
                            }
                        }
                        ref other => {
                            if other.is_err() {
                                ctx.count("probe_receiver_error");
                            }
                            if must_complete {
                                return Some(Self::v("missing-completion", &[], format!("all {} parts of tick {} (the newest tick seen, newer than every completed tick) have been fed but the receiver answered {:?}", tr.num_parts, t, other.as_ref().map(|_| ()))));
                            }
                        }
                    }
                    ctx.state(((cur_parts.len() as u64) << 8) | ((cur_done as u64) << 1) | older_than_newest as u64);
                    ctx.t(res_kind);
                }
            }
        }
        None
    }

    fn simplify_op(&self, op: &XferOp) -> Vec<XferOp> {
        let mut v = Vec::new();
        match *op {
            XferOp::NewTick { inc, base, len, salt } => {
                for l in [0u32, 1, 901, 1801] {
                    if l < len {
                        v.push(XferOp::NewTick { inc, base, len: l, salt });
                    }
                }
                if inc > 1 {
                    v.push(XferOp::NewTick { inc: 1, base, len, salt });
                }
                if base != -1 {
                    v.push(XferOp::NewTick { inc, base: -1, len, salt });
                }
            }
            XferOp::Deliver { pick } if pick != 0 => v.push(XferOp::Deliver { pick: 0 }),
            XferOp::Drop { pick } if pick != 0 => v.push(XferOp::Drop { pick: 0 }),
            XferOp::Dup { pick } if pick != 0 => v.push(XferOp::Dup { pick: 0 }),
            _ => {}
        }
        v
    }
    fn simplify_cfg(&self, cfg: &XferCfg) -> Vec<XferCfg> {
        if cfg.first_tick != 0 {
            vec![XferCfg { seed: cfg.seed, first_tick: 0 }]
        } else {
            vec![]
        }
    }
    fn info(&self) -> EngineInfo {
        EngineInfo {
            rule: "one run = a stream of ticks (arbitrary tick / base-tick values, data length 0..32 parts, unique data per tick) split by the real delta_chunks, encoded and decoded by the real message codecs and fed to the real DeltaReceiver through a channel that loses, duplicates, reorders and interleaves parts of older and newer ticks. Every receiver answer is compared with a small reference model (which transfer may / must complete) and the original data. Non-trivial = a channel fault fired while parts were in flight AND at least one answer was checked; distinct = distinct trace hash.".into(),
            assumptions: vec![
                "ticks strictly increase on the sending side (up to i32::MAX); base tick < tick and tick - base representable (the server's usage)".into(),
                "only consistent messages are fed (no corruption): the connection layer underneath is stubbed by the channel".into(),
            ],
            real: vec!["snapshot::snap::delta_chunks", "gamenet_snap::{Snap,SnapSingle,SnapEmpty}::{encode,decode}", "snapshot::receiver::DeltaReceiver", "packer"],
            stub: vec!["connection layer (simulated lossy/reordering channel)"],
            required_probes: vec!["probe_completed_multipart", "probe_old_tick_message", "probe_duplicate_part_fed", "probe_duplicate_after_completion", "probe_transfer_superseded"],
            fault_kinds: vec!["fault_loss", "fault_duplication", "fault_reorder"],
        }
    }
}

fn tr_parts(t: &Transfer) -> usize {
    t.num_parts
}
