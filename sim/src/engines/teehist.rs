//! Engine `teehist` (C17): the real incremental teehistorian reader fed
//! through its read callback by a simulated stream that fragments the bytes
//! under a seeded schedule (byte-by-byte, two-piece splits, random pieces,
//! zero-length non-EOF reads). Streams come from a random server history
//! encoded by a harness-own encoder following doc/teehistorian.md.

use crate::core::*;
use crate::prng::{mix, Prng};
use libtw2_teehistorian::verif as th;
use serde::{Deserialize, Serialize};
use std::collections::BTreeMap;

#[derive(Clone, Debug, Serialize, Deserialize)]
pub struct ThCfg {
    pub seed: u64,
    pub version: u8,
    /// number of config entries in the JSON header (controls header size)
    pub config_entries: u16,
    /// fragmentation: 0 one read, 1 byte-by-byte, 2 two pieces split at `split`, 3 random pieces <= `max_piece`, 4 tiny/huge mix
    pub mode: u8,
    pub split: u32,
    pub max_piece: u16,
    /// per-mille of zero-length non-EOF reads (EINTR convention)
    pub zero_reads: u16,
    /// damage applied to the stored stream: 0 none, 1 truncate at `damage_at`, 2 flip byte, 3 overwrite byte with boundary value, 4 hard read error at call `damage_at`
    pub damage: u8,
    pub damage_at: u32,
    pub damage_val: u8,
    /// the application recycles one `Buffer` (`clear()`) for every stream it reads instead of a fresh one per stream
    #[serde(default)]
    pub reuse_buffer: bool,
    /// also read the stream through the public file-based reader: 1 a regular temp file (`Reader::open`),
    /// 2 a socket-backed `File` (`Reader::new`) that delivers the stream in two pieces split at `split`
    /// (after the header), so that reads come back short although more data follows
    #[serde(default)]
    pub via_file: u8,
    /// 0: a header as servers write it; otherwise one header field carries an unusual but well-formed-JSON
    /// value (non-ASCII text of the expected byte length, wrong lengths, non-numbers, escapes, extra keys):
    /// the stream then counts as damaged (values or errors, no panic, same outcome under every fragmentation)
    #[serde(default)]
    pub odd_header: u8,
    /// 0/1: message lengths as given; otherwise every `Message` payload is `len * huge_scale` bytes: single
    /// records far beyond the reader's buffer (hundreds of KiB to a few MiB), which it has to grow for
    #[serde(default)]
    pub huge_scale: u16,
}

#[derive(Clone, Debug, Serialize, Deserialize, PartialEq)]
#[serde(tag = "op")]
pub enum ThOp {
    TickSkip { dt: u32 },
    PlayerNew { cid: u8, x: i32, y: i32 },
    PlayerDiff { cid: u8, dx: i32, dy: i32 },
    PlayerOld { cid: u8 },
    InputNew { cid: u8, salt: u32 },
    InputDiff { cid: u8, salt: u32 },
    Message { cid: u8, len: u16, salt: u32 },
    Join { cid: u8 },
    Drop { cid: u8, len: u8 },
    Console { cid: i8, nargs: u8, len: u8, salt: u32 },
    Ex { kind: u8, salt: u32, len: u16 },
    Finish,
}

fn v(class: &str, keys: &[(&str, &str)], obs: String) -> Violation {
    Violation::new("C17", class, keys, obs)
}

// --- harness-own encoder (doc/int.md, doc/teehistorian.md)

fn put_int(out: &mut Vec<u8>, x: i32) {
    let sign = if x < 0 { 1u8 } else { 0 };
    let mut v: u32 = if x < 0 { !(x as u32) } else { x as u32 };
    let mut b = (sign << 6) | (v & 0x3f) as u8;
    v >>= 6;
    while v != 0 {
        out.push(b | 0x80);
        b = (v & 0x7f) as u8;
        v >>= 7;
    }
    out.push(b);
}

fn put_str(out: &mut Vec<u8>, s: &[u8]) {
    out.extend(s.iter().map(|&b| if b == 0 { b'?' } else { b }));
    out.push(0);
}

fn put_data(out: &mut Vec<u8>, d: &[u8]) {
    put_int(out, d.len() as i32);
    out.extend_from_slice(d);
}

const MAGIC: [u8; 16] = [0x69, 0x9d, 0xb1, 0x7b, 0x8e, 0xfb, 0x34, 0xff, 0xb1, 0xd8, 0xda, 0x6f, 0x60, 0xc1, 0x5d, 0xd1];

/// Known extension UUIDs with the layout of their payload: i=int, s=str, u=uuid, r=rest raw
const EX: &[([u8; 16], &str, &str)] = &[
    ([0x60, 0xda, 0xba, 0x5c, 0x52, 0xc4, 0x3a, 0xeb, 0xb8, 0xba, 0xb2, 0x95, 0x3f, 0xb5, 0x5a, 0x17], "iis", "AuthInit"),
    ([0x37, 0xec, 0xd3, 0xb8, 0x92, 0x18, 0x3b, 0xb9, 0xa7, 0x1b, 0xa9, 0x35, 0xb8, 0x6f, 0x6a, 0x81], "iis", "AuthLogin"),
    ([0xd4, 0xf5, 0xab, 0xe8, 0xed, 0xd2, 0x3f, 0xb9, 0xab, 0xd8, 0x1c, 0x8b, 0xb8, 0x4f, 0x4a, 0x63], "i", "AuthLogout"),
    ([0x13, 0x97, 0xb6, 0x3e, 0xee, 0x4e, 0x39, 0x19, 0xb8, 0x6a, 0xb0, 0x58, 0x88, 0x7f, 0xca, 0xf5], "iuis", "Ddnetver"),
    ([0x41, 0xb4, 0x95, 0x41, 0xf2, 0x6f, 0x32, 0x5d, 0x87, 0x15, 0x9b, 0xaf, 0x4b, 0x54, 0x4e, 0xf9], "ii", "DdnetverOld"),
    ([0x18, 0x99, 0xa3, 0x82, 0x71, 0xe3, 0x36, 0xda, 0x93, 0x7d, 0xc9, 0xde, 0x6b, 0xb9, 0x5b, 0x1d], "i", "Joinver6"),
    ([0x59, 0x23, 0x9b, 0x05, 0x05, 0x40, 0x31, 0x8d, 0xbe, 0xa4, 0x9a, 0xa1, 0xe8, 0x0e, 0x7d, 0x2b], "i", "Joinver7"),
    ([0xa1, 0x11, 0xc0, 0x4e, 0x1e, 0xa8, 0x38, 0xe0, 0x90, 0xb1, 0xd7, 0xf9, 0x93, 0xca, 0x0d, 0xa9], "ii", "PlayerTeam"),
    ([0x57, 0x92, 0x83, 0x4e, 0x81, 0xd1, 0x34, 0xc9, 0xa2, 0x9b, 0xb5, 0xff, 0x25, 0xda, 0xc3, 0xbc], "ii", "TeamPractice"),
    ([0x63, 0x85, 0x87, 0xc9, 0x3f, 0x75, 0x38, 0x87, 0x91, 0x8e, 0xa3, 0xc2, 0x61, 0x4f, 0xfa, 0xa0], "i", "PlayerReady"),
    ([0x5d, 0xe9, 0xb6, 0x33, 0x49, 0xcf, 0x3e, 0x99, 0x9a, 0x25, 0xd4, 0xa7, 0x8e, 0x97, 0x17, 0xd7], "ii", "PlayerSwap"),
    ([0xb2, 0x99, 0x01, 0xd5, 0x12, 0x44, 0x3b, 0xd0, 0xbb, 0xde, 0x23, 0xd0, 0x4b, 0x1f, 0x7b, 0xa9], "i", "TeamSaveFailure"),
    ([0xef, 0x89, 0x05, 0xa2, 0xc6, 0x95, 0x35, 0x91, 0xa1, 0xcd, 0x53, 0xd2, 0x01, 0x59, 0x92, 0xdd], "i", "TeamLoadFailure"),
    ([0x45, 0x60, 0xc7, 0x56, 0xda, 0x29, 0x30, 0x36, 0x81, 0xd4, 0x90, 0xa5, 0x0f, 0x01, 0x82, 0xcd], "ius", "TeamSaveSuccess"),
    ([0xe0, 0x54, 0x08, 0xd3, 0xa3, 0x13, 0x33, 0xdf, 0x9e, 0xb3, 0xdd, 0xb9, 0x90, 0xab, 0x95, 0x4a], "ius", "TeamLoadSuccess"),
    // UUIDv3 (namespace e05ddaaa-c4e6-4cfb-b642-5d48e80c0029) of teehistorian-{antibot,player-finish,player-name,rejoinver6,team-finish}@ddnet.org
    ([0x86, 0x6b, 0xfd, 0xac, 0xfb, 0x49, 0x3c, 0x0b, 0xa8, 0x87, 0x5f, 0xe1, 0xf3, 0xea, 0x00, 0xb8], "r", "Antibot"),
    ([0x68, 0x94, 0x3c, 0x01, 0x23, 0x48, 0x3e, 0x01, 0x94, 0x90, 0x3f, 0x27, 0xf8, 0x26, 0x9d, 0x94], "ii", "PlayerFinish"),
    ([0xd0, 0x16, 0xf9, 0xb9, 0x41, 0x51, 0x3b, 0x87, 0x87, 0xe5, 0x3a, 0x60, 0x87, 0xeb, 0x5f, 0x26], "is", "PlayerName"),
    ([0xc1, 0xe9, 0x21, 0xd5, 0x96, 0xf5, 0x37, 0xbb, 0x8a, 0x45, 0x7a, 0x06, 0xf1, 0x63, 0xd2, 0x7e], "i", "PlayerRejoin"),
    ([0x95, 0x88, 0xb9, 0xaf, 0x3f, 0xdc, 0x37, 0x60, 0x80, 0x43, 0x82, 0xde, 0xee, 0xe3, 0x17, 0xa5], "ii", "TeamFinish"),
];

#[derive(Clone, Debug, PartialEq)]
enum Expect {
    PlayerNew { cid: i32, pos: (i32, i32) },
    PlayerChange { cid: i32, pos: (i32, i32), old: (i32, i32) },
    PlayerOld { cid: i32, pos: (i32, i32) },
    Input { cid: i32, input: [i32; 10] },
    Other(&'static str),
}

struct Built {
    bytes: Vec<u8>,
    /// per emitted non-boundary message: (tick the documentation assigns, expected item)
    expect: Vec<(i64, Expect)>,
    finished: bool,
}

fn text(r: &mut Prng, len: usize) -> Vec<u8> {
    const A: &[u8] = b"abcdefghijklmnopqrstuvwxyz \"\\{}:,0123456789";
    (0..len).map(|_| A[r.usize_below(A.len())]).collect()
}

fn build_stream(cfg: &ThCfg, ops: &[ThOp]) -> Built {
    let mut out: Vec<u8> = Vec::new();
    let mut r = Prng::new(mix(cfg.seed, 0x68647231, 0));
    out.extend_from_slice(&MAGIC);
    // JSON header
    let v2 = cfg.version != 1;
    let mut json = String::new();
    json.push_str("{\"comment\":\"generated\",");
    json.push_str(&format!("\"version\":\"{}\",", if v2 { 2 } else { 1 }));
    json.push_str("\"game_uuid\":\"a1eb7182-796e-3b3e-941d-38ca71b2a4a8\",");
    if v2 {
        json.push_str("\"start_time\":\"2017-10-03T16:56:42+02:00\",");
    } else {
        json.push_str("\"start_time\":\"2017-10-03 16:56:42 +0200\",");
    }
    json.push_str(&format!("\"server_port\":\"{}\",\"map_name\":\"m{}\",\"map_size\":\"{}\",\"map_crc\":\"{:08x}\",", r.below(65536), r.below(1000), r.below(1 << 24), r.next_u64() as u32));
    if cfg.odd_header != 0 {
        // (drawn from a separate stream so that the rest of the header does not depend on it)
        let mut o = Prng::new(mix(cfg.seed, 0x6f646468, cfg.odd_header as u64));
        let sha: String = match cfg.odd_header % 8 {
            0 => "\u{e9}".repeat(32),                                  // 64 bytes, 2-byte characters
            1 => format!("a{}b", "\u{e9}".repeat(31)),                 // 64 bytes, characters at odd offsets
            2 => "\u{20ac}".repeat(21) + "a",                          // 64 bytes, 3-byte characters
            3 => "\u{1f600}".repeat(16),                               // 64 bytes, 4-byte characters
            4 => "0".repeat(63),
            5 => "0".repeat(65),
            6 => "G".repeat(64),
            _ => "ABCDEF0123456789".repeat(4),
        };
        json.push_str(&format!("\"map_sha256\":\"{}\",", sha));
        match o.below(6) {
            0 => json.push_str("\"map_crc\":\"\u{e9}\u{e9}\u{e9}\u{e9}\","),
            1 => json.push_str("\"extra\":{\"nested\":[1,2,{\"x\":null}]},"),
            2 => json.push_str("\"server_port\":\"\u{ff11}\u{ff12}\","),
            3 => json.push_str("\"map_size\":\"99999999999999999999999\","),
            4 => json.push_str("\"comment\":\"line\\nbreak \\u00e9 \\\" quote\","),
            _ => {}
        }
    } else if r.chance(1, 2) {
        json.push_str("\"map_sha256\":\"");
        for _ in 0..32 {
            json.push_str(&format!("{:02x}", r.below(256)));
        }
        json.push_str("\",");
    }
    json.push_str("\"config\":{");
    for i in 0..cfg.config_entries {
        if i > 0 {
            json.push(',');
        }
        let vlen = r.usize_below(60);
        let val: String = (0..vlen).map(|_| b"abcdefghijklmnopqrstuvwxyz 0123456789_-"[r.usize_below(38)] as char).collect();
        json.push_str(&format!("\"sv_k{}\":\"{}\"", i, val));
    }
    json.push_str("},\"tuning\":{},\"uuids\":[]}");
    out.extend_from_slice(json.as_bytes());
    out.push(0);

    // messages, following the documentation's tick rule
    let mut expect: Vec<(i64, Expect)> = Vec::new();
    let mut tick: i64 = 0;
    let mut implicit_cid: Option<i32> = None;
    let mut players: BTreeMap<i32, (i32, i32)> = BTreeMap::new();
    let mut inputs: BTreeMap<i32, [i32; 10]> = BTreeMap::new();
    let mut finished = false;
    let player_msg = |cid: i32, tick: &mut i64, implicit: &mut Option<i32>| {
        if let Some(ic) = *implicit {
            if cid <= ic {
                *tick += 1;
            }
        }
        *implicit = Some(cid);
    };
    for op in ops {
        if tick > i32::MAX as i64 - 70000 {
            break;
        }
        match *op {
            ThOp::TickSkip { dt } => {
                let dt = dt.min(1 << 20);
                put_int(&mut out, -2);
                put_int(&mut out, dt as i32);
                tick += dt as i64 + 1;
                implicit_cid = None;
            }
            ThOp::PlayerNew { cid, x, y } => {
                let cid = (cid % 64) as i32;
                if players.contains_key(&cid) {
                    continue;
                }
                player_msg(cid, &mut tick, &mut implicit_cid);
                put_int(&mut out, -3);
                put_int(&mut out, cid);
                put_int(&mut out, x);
                put_int(&mut out, y);
                players.insert(cid, (x, y));
                expect.push((tick, Expect::PlayerNew { cid, pos: (x, y) }));
            }
            ThOp::PlayerDiff { cid, dx, dy } => {
                let cid = (cid % 64) as i32;
                let old = match players.get(&cid) {
                    Some(p) => *p,
                    None => continue,
                };
                player_msg(cid, &mut tick, &mut implicit_cid);
                put_int(&mut out, cid);
                put_int(&mut out, dx);
                put_int(&mut out, dy);
                let new = (old.0.wrapping_add(dx), old.1.wrapping_add(dy));
                players.insert(cid, new);
                expect.push((tick, Expect::PlayerChange { cid, pos: new, old }));
            }
            ThOp::PlayerOld { cid } => {
                let cid = (cid % 64) as i32;
                let pos = match players.remove(&cid) {
                    Some(p) => p,
                    None => continue,
                };
                player_msg(cid, &mut tick, &mut implicit_cid);
                put_int(&mut out, -4);
                put_int(&mut out, cid);
                expect.push((tick, Expect::PlayerOld { cid, pos }));
            }
            ThOp::InputNew { cid, salt } => {
                let cid = (cid % 64) as i32;
                let mut r = Prng::new(mix(cfg.seed, salt as u64, 1));
                let mut inp = [0i32; 10];
                for x in inp.iter_mut() {
                    *x = r.i32_edge();
                }
                put_int(&mut out, -6);
                put_int(&mut out, cid);
                for x in inp {
                    put_int(&mut out, x);
                }
                inputs.insert(cid, inp);
                expect.push((tick, Expect::Input { cid, input: inp }));
            }
            ThOp::InputDiff { cid, salt } => {
                let cid = (cid % 64) as i32;
                let cur = match inputs.get(&cid) {
                    Some(i) => *i,
                    None => continue,
                };
                let mut r = Prng::new(mix(cfg.seed, salt as u64, 2));
                let mut d = [0i32; 10];
                for x in d.iter_mut() {
                    *x = if r.chance(1, 2) { 0 } else { r.i32_edge() };
                }
                put_int(&mut out, -5);
                put_int(&mut out, cid);
                for x in d {
                    put_int(&mut out, x);
                }
                let mut new = cur;
                for i in 0..10 {
                    new[i] = new[i].wrapping_add(d[i]);
                }
                inputs.insert(cid, new);
                expect.push((tick, Expect::Input { cid, input: new }));
            }
            ThOp::Message { cid, len, salt } => {
                let mut r = Prng::new(mix(cfg.seed, salt as u64, 3));
                put_int(&mut out, -7);
                put_int(&mut out, (cid % 64) as i32);
                let d = r.bytes(len as usize * cfg.huge_scale.max(1) as usize);
                put_data(&mut out, &d);
                expect.push((tick, Expect::Other("Message")));
            }
            ThOp::Join { cid } => {
                put_int(&mut out, -8);
                put_int(&mut out, (cid % 64) as i32);
                expect.push((tick, Expect::Other("Join")));
            }
            ThOp::Drop { cid, len } => {
                put_int(&mut out, -9);
                put_int(&mut out, (cid % 64) as i32);
                let t = text(&mut r, len as usize);
                put_str(&mut out, &t);
                expect.push((tick, Expect::Other("Drop")));
            }
            ThOp::Console { cid, nargs, len, salt } => {
                let mut r = Prng::new(mix(cfg.seed, salt as u64, 4));
                put_int(&mut out, -10);
                put_int(&mut out, cid as i32);
                put_int(&mut out, r.below(1 << 16) as i32);
                let t = text(&mut r, len as usize);
                put_str(&mut out, &t);
                let n = (nargs % 17) as i32;
                put_int(&mut out, n);
                for _ in 0..n {
                    let l = r.usize_below(12);
                    let t = text(&mut r, l);
                    put_str(&mut out, &t);
                }
                expect.push((tick, Expect::Other("ConsoleCommand")));
            }
            ThOp::Ex { kind, salt, len } => {
                if !v2 {
                    continue;
                }
                let mut r = Prng::new(mix(cfg.seed, salt as u64, 5));
                put_int(&mut out, -11);
                let k = kind as usize % (EX.len() + 2);
                if k >= EX.len() {
                    // unknown extension (or antibot-like opaque data)
                    let mut u = [0u8; 16];
                    r.fill(&mut u);
                    u[0] = 0x01; // never a known one
                    out.extend_from_slice(&u);
                    let d = r.bytes(len as usize);
                    put_data(&mut out, &d);
                    expect.push((tick, Expect::Other("UnknownEx")));
                } else {
                    let (uuid, layout, name) = EX[k];
                    out.extend_from_slice(&uuid);
                    let mut body: Vec<u8> = Vec::new();
                    for ch in layout.chars() {
                        match ch {
                            'i' => put_int(&mut body, if r.chance(1, 2) { r.below(64) as i32 } else { r.i32_edge() }),
                            's' => {
                                let l = r.usize_below(len as usize % 200 + 1);
                                let t = text(&mut r, l);
                                put_str(&mut body, &t);
                            }
                            'u' => {
                                let mut u = [0u8; 16];
                                r.fill(&mut u);
                                body.extend_from_slice(&u);
                            }
                            'r' => {
                                let l = r.usize_below(len as usize + 1);
                                body.extend_from_slice(&r.bytes(l));
                            }
                            _ => {}
                        }
                    }
                    put_data(&mut out, &body);
                    expect.push((tick, Expect::Other(name)));
                }
            }
            ThOp::Finish => {
                put_int(&mut out, -1);
                finished = true;
                break;
            }
        }
    }
    Built { bytes: out, expect, finished }
}

// --- the simulated stream

struct FragCb<'a> {
    data: &'a [u8],
    pos: usize,
    mode: u8,
    split: usize,
    max_piece: usize,
    zero_reads: u64,
    fail_at: Option<u64>,
    rng: Prng,
    calls: u64,
    zero_in_a_row: u32,
    zero_fired: u64,
    pieces: u64,
    budget: u64,
}

impl<'a> th::Callback for FragCb<'a> {
    type Error = ();
    fn read_at_most(&mut self, buffer: &mut [u8]) -> Result<Option<usize>, ()> {
        self.calls += 1;
        if self.calls > self.budget {
            panic!("{} read callback budget exceeded ({} calls for a {}-byte stream)", BUDGET_MARKER, self.calls, self.data.len());
        }
        if let Some(k) = self.fail_at {
            if self.calls >= k {
                return Err(());
            }
        }
        if self.pos >= self.data.len() {
            return Ok(None);
        }
        if self.zero_reads > 0 && self.zero_in_a_row < 3 && self.rng.chance(self.zero_reads, 1000) {
            self.zero_in_a_row += 1;
            self.zero_fired += 1;
            return Ok(Some(0));
        }
        self.zero_in_a_row = 0;
        let avail = (self.data.len() - self.pos).min(buffer.len());
        if avail == 0 {
            return Ok(Some(0));
        }
        let n = match self.mode {
            0 => avail,
            1 => 1,
            2 => {
                if self.pos < self.split {
                    avail.min(self.split - self.pos)
                } else {
                    avail
                }
            }
            3 => avail.min(1 + self.rng.usize_below(self.max_piece.max(1))),
            _ => {
                if self.rng.chance(1, 2) {
                    avail.min(1 + self.rng.usize_below(3))
                } else {
                    avail
                }
            }
        };
        buffer[..n].copy_from_slice(&self.data[self.pos..self.pos + n]);
        self.pos += n;
        self.pieces += 1;
        Ok(Some(n))
    }
}

#[derive(Debug, PartialEq, Clone)]
enum End {
    Finished,
    Err(String),
}

struct Parsed {
    /// Debug rendering of every item
    items: Vec<String>,
    /// (tick of the enclosing start/end pair, structured view) of every non-boundary item
    inner: Vec<(i64, Option<Expect>, String)>,
    end: End,
    nesting_error: Option<String>,
    /// first disagreement between an item and the reader's own accessors (player_pos / input / cids)
    accessor_error: Option<String>,
}

fn parse(cb: &mut FragCb, recycled: Option<&mut th::Buffer>) -> Result<Parsed, PanicInfo> {
    guard(|| {
        let mut fresh = th::Buffer::new();
        let mut buffer: &mut th::Buffer = match recycled {
            Some(b) => {
                b.clear();
                b
            }
            None => &mut fresh,
        };
        let mut items = Vec::new();
        let mut inner = Vec::new();
        let mut nesting_error = None;
        let mut accessor_error: Option<String> = None;
        let mut reader = match th::Reader::new(cb, &mut buffer) {
            Ok((_header, r)) => r,
            Err(e) => {
                return Parsed { items, inner, end: End::Err(format!("header: {}", err_name(&e))), nesting_error, accessor_error };
            }
        };
        let mut cur_tick: Option<i64> = None;
        let mut last_tick: Option<i64> = None;
        let end;
        loop {
            match reader.read(cb, &mut buffer) {
                Ok(None) => {
                    end = End::Finished;
                    break;
                }
                Err(e) => {
                    end = End::Err(err_name(&e));
                    break;
                }
                Ok(Some(item)) => {
                    let s = format!("{:?}", item);
                    match item {
                        th::Item::TickStart(t) => {
                            if cur_tick.is_some() && nesting_error.is_none() {
                                nesting_error = Some(format!("TickStart({}) inside tick {:?}", t, cur_tick));
                            }
                            if let Some(l) = last_tick {
                                if (t as i64) <= l && nesting_error.is_none() {
                                    nesting_error = Some(format!("TickStart({}) after tick {}: not strictly increasing", t, l));
                                }
                            }
                            cur_tick = Some(t as i64);
                        }
                        th::Item::TickEnd(t) => {
                            if cur_tick != Some(t as i64) && nesting_error.is_none() {
                                nesting_error = Some(format!("TickEnd({}) while in tick {:?}", t, cur_tick));
                            }
                            last_tick = Some(t as i64);
                            cur_tick = None;
                        }
                        ref other => {
                            let ex = match other {
                                th::Item::PlayerNew(p) => Some(Expect::PlayerNew { cid: p.cid, pos: (p.pos.x, p.pos.y) }),
                                th::Item::PlayerChange(p) => Some(Expect::PlayerChange { cid: p.cid, pos: (p.pos.x, p.pos.y), old: (p.old_pos.x, p.old_pos.y) }),
                                th::Item::PlayerOld(p) => Some(Expect::PlayerOld { cid: p.cid, pos: (p.pos.x, p.pos.y) }),
                                th::Item::Input(i) => Some(Expect::Input { cid: i.cid, input: i.input }),
                                _ => None,
                            };
                            let _ = reader.cids();
                            if accessor_error.is_none() {
                                // the reader's accessors are a second view of the running sums: they must agree with the item just produced
                                let cids = reader.cids();
                                // cids() is a half-open i32 range: client id i32::MAX cannot be inside it
                                let in_cids = |c: i32| c == i32::MAX || cids.contains(&c);
                                let bad = match other {
                                    th::Item::PlayerNew(p) => (!in_cids(p.cid) || reader.player_pos(p.cid).map(|q| (q.x, q.y)) != Some((p.pos.x, p.pos.y))).then(|| format!("after {} player_pos({}) = {:?}, cids() = {:?}", s, p.cid, reader.player_pos(p.cid).map(|q| (q.x, q.y)), cids)),
                                    th::Item::PlayerChange(p) => (!in_cids(p.cid) || reader.player_pos(p.cid).map(|q| (q.x, q.y)) != Some((p.pos.x, p.pos.y))).then(|| format!("after {} player_pos({}) = {:?}, cids() = {:?}", s, p.cid, reader.player_pos(p.cid).map(|q| (q.x, q.y)), cids)),
                                    th::Item::PlayerOld(p) => (!in_cids(p.cid) || reader.player_pos(p.cid).is_some()).then(|| format!("after {} player_pos({}) = {:?}, cids() = {:?}", s, p.cid, reader.player_pos(p.cid).map(|q| (q.x, q.y)), cids)),
                                    th::Item::Input(i) => (!in_cids(i.cid) || reader.input(i.cid) != Some(i.input)).then(|| format!("after {} input({}) = {:?}, cids() = {:?}", s, i.cid, reader.input(i.cid), cids)),
                                    _ => None,
                                };
                                accessor_error = bad;
                            }
                            match cur_tick {
                                Some(t) => inner.push((t, ex, s.clone())),
                                None => {
                                    if nesting_error.is_none() {
                                        nesting_error = Some(format!("item {} outside any TickStart/TickEnd pair", s.chars().take(50).collect::<String>()));
                                    }
                                    inner.push((-1, ex, s.clone()));
                                }
                            }
                        }
                    }
                    items.push(s);
                    if items.len() > 2_000_000 {
                        end = End::Err("too many items".into());
                        break;
                    }
                }
            }
        }
        if end == End::Finished && cur_tick.is_some() && nesting_error.is_none() {
            nesting_error = Some(format!("stream finished inside tick {:?} (no TickEnd)", cur_tick));
        }
        Parsed { items, inner, end, nesting_error, accessor_error }
    })
}

/// Reads the stream through the public, file-based `teehistorian::Reader`. `Ok(None)`: the harness could
/// not set the file up (or the stream has no complete header, which a blocking stream file cannot deliver).
fn file_parse(cfg: &ThCfg, bytes: &[u8]) -> Result<Option<(Vec<String>, End)>, PanicInfo> {
    use std::io::Write;
    let hdr_end = match bytes.iter().skip(16).position(|&b| b == 0) {
        Some(p) if bytes.len() >= 16 => 16 + p + 1,
        _ => return Ok(None),
    };
    let path = std::env::temp_dir().join(format!("tw2sim-th-{}-{:016x}-{:?}.teehistorian", std::process::id(), cfg.seed, std::thread::current().id()).replace(['(', ')'], ""));
    let mut second_piece: Option<(std::os::unix::net::UnixStream, Vec<u8>)> = None;
    let file = if cfg.via_file == 2 {
        let (mut tx, rx) = match std::os::unix::net::UnixStream::pair() {
            Ok(p) => p,
            Err(_) => return Ok(None),
        };
        let _ = rx.set_read_timeout(Some(std::time::Duration::from_secs(5)));
        let split = hdr_end + (cfg.split as usize % (bytes.len() - hdr_end + 1));
        if tx.write_all(&bytes[..split]).is_err() {
            return Ok(None);
        }
        second_piece = Some((tx, bytes[split..].to_vec()));
        std::fs::File::from(std::os::fd::OwnedFd::from(rx))
    } else {
        if std::fs::write(&path, bytes).is_err() {
            return Ok(None);
        }
        match std::fs::File::open(&path) {
            Ok(f) => f,
            Err(_) => return Ok(None),
        }
    };
    let r = guard(move || {
        let mut buffer = libtw2_teehistorian::Buffer::new();
        let mut items: Vec<String> = Vec::new();
        let name = |e: &libtw2_teehistorian::Error| match e {
            libtw2_teehistorian::Error::Teehistorian(f) => format!("{:?}", f),
            libtw2_teehistorian::Error::Io(_) => "callback-error".to_string(),
        };
        let mut reader = match libtw2_teehistorian::Reader::new(file, &mut buffer) {
            Ok((_h, r)) => r,
            Err(e) => return (items, End::Err(format!("header: {}", name(&e))), matches!(e, libtw2_teehistorian::Error::Io(_))),
        };
        // the rest of the stream arrives (and the sender closes) before the first item is asked for
        if let Some((mut tx, rest)) = second_piece {
            let _ = tx.write_all(&rest);
            drop(tx);
        }
        loop {
            match reader.read(&mut buffer) {
                Ok(None) => return (items, End::Finished, false),
                Err(e) => return (items, End::Err(name(&e)), matches!(e, libtw2_teehistorian::Error::Io(_))),
                Ok(Some(item)) => items.push(format!("{:?}", item)),
            }
            if items.len() > 2_000_000 {
                return (items, End::Err("too many items".into()), false);
            }
        }
    });
    let _ = std::fs::remove_file(&path);
    match r {
        Err(p) => Err(p),
        // an I/O error of the real file (e.g. the read timeout of the socket) is the harness's problem
        Ok((_, _, true)) => Ok(None),
        Ok((items, end, false)) => Ok(Some((items, end))),
    }
}

fn err_name<CE>(e: &th::Error<CE>) -> String {
    match e {
        th::Error::Teehistorian(f) => format!("{:?}", f),
        th::Error::Cb(_) => "callback-error".into(),
    }
}

pub struct ThEngine;

impl ThEngine {
    fn cb<'a>(cfg: &ThCfg, data: &'a [u8], reference: bool) -> FragCb<'a> {
        FragCb {
            data,
            pos: 0,
            mode: if reference { 0 } else { cfg.mode },
            split: cfg.split as usize % (data.len() + 1),
            max_piece: cfg.max_piece as usize,
            zero_reads: if reference { 0 } else { cfg.zero_reads as u64 },
            fail_at: if !reference && cfg.damage == 4 { Some(cfg.damage_at as u64 % 64 + 1) } else { None },
            rng: Prng::new(mix(cfg.seed, 0x66726167, 0)),
            calls: 0,
            zero_in_a_row: 0,
            zero_fired: 0,
            pieces: 0,
            budget: 20 * data.len() as u64 + 10_000,
        }
    }
}

impl Engine for ThEngine {
    type Cfg = ThCfg;
    type Op = ThOp;
    fn engine_name(&self) -> &'static str {
        "teehist"
    }
    fn property(&self) -> &'static str {
        "C17"
    }
    fn budget(&self) -> (u64, u64) {
        (80_000, 300)
    }

    fn generate(&self, seed: u64, tier: Tier) -> Case<ThCfg, ThOp> {
        let mut c = Prng::stream(seed, 1);
        let mut s = Prng::stream(seed, 2);
        let damage = if c.chance(1, 4) { 1 + c.below(4) as u8 } else { 0 };
        let cfg = ThCfg {
            seed: c.next_u64(),
            version: if c.chance(1, 4) { 1 } else { 2 },
            config_entries: match c.below(8) {
                0 => 0,
                1..=4 => c.range(1, 30) as u16,
                5 | 6 => c.range(30, 200) as u16,
                _ => c.range(200, 400) as u16,
            },
            mode: *c.pick(&[1u8, 2, 2, 3, 3, 3, 4, 4]),
            split: c.next_u64() as u32,
            max_piece: *c.pick(&[1u16, 2, 3, 5, 16, 100, 1000, 8191, 8192, 8193]),
            zero_reads: if c.chance(1, 2) { c.range(20, 400) as u16 } else { 0 },
            damage,
            damage_at: c.next_u64() as u32,
            damage_val: *c.pick(&[0u8, 0xff, 0x7f, 0x80, 0x40, 0x3f, 1]),
            reuse_buffer: c.chance(1, 3),
            via_file: if c.chance(1, 5) { 1 + c.below(2) as u8 } else { 0 },
            odd_header: if c.chance(1, 12) { 1 + c.below(200) as u8 } else { 0 },
            huge_scale: 0,
        };
        // 1 run in 800: one record of 80 KiB .. 2.4 MiB in a short stream, delivered in pieces of a few KiB
        let huge = c.chance(1, 800);
        let cfg = if huge {
            ThCfg { huge_scale: *c.pick(&[4u16, 16, 60, 75, 120]), mode: *c.pick(&[2u8, 3, 3]), max_piece: *c.pick(&[4096u16, 8191, 8192, 8193, 60000]), zero_reads: if c.chance(1, 2) { 20 } else { 0 }, via_file: 0, ..cfg }
        } else {
            cfg
        };
        let n = if huge { c.range(1, 12) } else { match c.below(10) {
            0..=3 => c.range(1, 30),
            4..=7 => c.range(30, 200),
            8 => c.range(200, 1500),
            _ => {
                if tier == Tier::Thorough {
                    c.range(1500, 8000)
                } else {
                    c.range(200, 2500)
                }
            }
        } };
        let nplayers = *c.pick(&[1u64, 2, 3, 8, 64]);
        let big_msgs = !huge && c.chance(1, 6);
        let mut ops = Vec::new();
        let mut next_player = 0u64;
        for _ in 0..n {
            let cid = s.below(nplayers) as u8;
            match s.weighted(&[6, 8, 40, 4, 6, 12, 5, 2, 2, 3, 8]) {
                0 => ops.push(ThOp::TickSkip { dt: *s.pick(&[0u32, 0, 1, 2, 5, 49, 1000, 100_000]) }),
                1 => {
                    // new players mostly in ascending order within a tick, as a server does
                    let cid = if s.chance(2, 3) { (next_player % nplayers) as u8 } else { cid };
                    next_player += 1;
                    ops.push(ThOp::PlayerNew { cid, x: s.i32_edge(), y: s.i32_edge() });
                }
                2 => {
                    // a sweep over players (one server tick worth of diffs)
                    if s.chance(1, 3) {
                        for c2 in 0..nplayers.min(8) {
                            if s.chance(3, 4) {
                                ops.push(ThOp::PlayerDiff { cid: c2 as u8, dx: s.range(0, 64) as i32 - 32, dy: s.range(0, 64) as i32 - 32 });
                            }
                        }
                    } else {
                        ops.push(ThOp::PlayerDiff { cid, dx: s.i32_edge(), dy: s.i32_edge() });
                    }
                }
                3 => ops.push(ThOp::PlayerOld { cid }),
                4 => ops.push(ThOp::InputNew { cid, salt: s.next_u64() as u32 }),
                5 => ops.push(ThOp::InputDiff { cid, salt: s.next_u64() as u32 }),
                6 => ops.push(ThOp::Message { cid, len: if big_msgs { *s.pick(&[0u16, 100, 5000, 8191, 8192, 9000, 20000]) } else { s.range(0, 60) as u16 }, salt: s.next_u64() as u32 }),
                7 => ops.push(ThOp::Join { cid }),
                8 => ops.push(ThOp::Drop { cid, len: s.range(0, 40) as u8 }),
                9 => ops.push(ThOp::Console { cid: s.range(0, 66) as i8 - 2, nargs: s.below(18) as u8, len: s.range(0, 30) as u8, salt: s.next_u64() as u32 }),
                _ => ops.push(ThOp::Ex { kind: s.below(32) as u8, salt: s.next_u64() as u32, len: if big_msgs { s.range(0, 9000) as u16 } else { s.range(0, 40) as u16 } }),
            }
        }
        if huge {
            let at = s.usize_below(ops.len() + 1);
            ops.insert(at, ThOp::Message { cid: 0, len: *s.pick(&[9000u16, 20000, 20000]), salt: s.next_u64() as u32 });
        }
        if s.chance(9, 10) {
            ops.push(ThOp::Finish);
        }
        Case { cfg, ops }
    }

    fn execute(&self, case: &Case<ThCfg, ThOp>, ctx: &mut Ctx) -> Option<Violation> {
        let cfg = &case.cfg;
        ctx.ops_executed += case.ops.len() as u64;
        let built = build_stream(cfg, &case.ops);
        let mut bytes = built.bytes.clone();
        if cfg.odd_header != 0 {
            ctx.count("fault_odd_header_field");
        }
        let damaged_bytes = match cfg.damage {
            1 => {
                let at = cfg.damage_at as usize % (bytes.len() + 1);
                bytes.truncate(at);
                ctx.count("fault_torn_tail");
                true
            }
            2 if !bytes.is_empty() => {
                let at = cfg.damage_at as usize % bytes.len();
                bytes[at] ^= 1 << (cfg.damage_val % 8);
                ctx.count("fault_bit_flip");
                true
            }
            3 if !bytes.is_empty() => {
                let at = cfg.damage_at as usize % bytes.len();
                bytes[at] = cfg.damage_val;
                ctx.count("fault_byte_overwrite");
                true
            }
            4 => {
                ctx.count("fault_read_error");
                true
            }
            _ => false,
        };
        let damaged = damaged_bytes || cfg.odd_header != 0;
        ctx.logf(|| format!("stream: {} bytes, {} messages expected, finish={}, damage={}", bytes.len(), built.expect.len(), built.finished, cfg.damage));
        // reference: everything available is returned by each read
        let mut rcb = Self::cb(cfg, &bytes, true);
        let mut shared = th::Buffer::new();
        let reference = match parse(&mut rcb, if cfg.reuse_buffer { Some(&mut shared) } else { None }) {
            Ok(p) => p,
            Err(p) => {
                let class = if p.is_budget() { "unbounded-loop" } else { "panic" };
                return Some(v(class, &[("schedule", "one-read"), ("message", &p.msg_class()), ("file", &p.file_class())], format!("reader panicked on a {} stream read in one piece: {} at {}:{}", if damaged { "damaged" } else { "valid" }, p.msg, p.file, p.line)));
            }
        };
        ctx.oracle_event = true;
        ctx.t(reference.items.len() as u64);
        // documentation model (valid streams only)
        if !damaged {
            if let Some(e) = &reference.nesting_error {
                return Some(v("tick-nesting", &[], format!("tick boundaries are not properly nested / increasing: {}", e)));
            }
            let want_end = if built.finished { End::Finished } else { End::Err("UnexpectedEnd".into()) };
            if reference.end != want_end {
                return Some(v("valid-stream-rejected", &[("end", &format!("{:?}", reference.end).chars().take(40).collect::<String>())], format!("a valid stream ended with {:?} (expected {:?}) after {} items", reference.end, want_end, reference.items.len())));
            }
            if reference.inner.len() != built.expect.len() {
                return Some(v("item-count-differs", &[], format!("reader produced {} message items, the stream contains {}", reference.inner.len(), built.expect.len())));
            }
            for (i, ((gt, gex, gs), (wt, wex))) in reference.inner.iter().zip(built.expect.iter()).enumerate() {
                if gt != wt {
                    return Some(v("tick-number-differs-from-documentation", &[], format!("message #{} ({}) is reported in tick {} but doc/teehistorian.md assigns tick {}", i, gs.chars().take(60).collect::<String>(), gt, wt)));
                }
                match (gex, wex) {
                    (Some(g), w) if g != w => {
                        return Some(v("running-sum-differs", &[("item", match w { Expect::Input { .. } => "input", _ => "position" })], format!("message #{}: reader reports {:?}, the running sums give {:?}", i, g, w)));
                    }
                    (None, Expect::Other(name)) => {
                        if !gs.starts_with(name) && !(name == &"UnknownEx") {
                            return Some(v("item-kind-differs", &[("want", name)], format!("message #{}: reader reports {} but the stream holds a {}", i, gs.chars().take(60).collect::<String>(), name)));
                        }
                    }
                    (None, w) => return Some(v("item-kind-differs", &[("want", "player/input")], format!("message #{}: reader reports {} but the stream holds {:?}", i, gs.chars().take(60).collect::<String>(), w))),
                    _ => {}
                }
            }
            if let Some(e) = &reference.accessor_error {
                return Some(v("accessor-differs-from-items", &[], format!("player_pos / input / cids disagree with the item stream: {}", e.chars().take(300).collect::<String>())));
            }
            ctx.count("probe_valid_stream_checked");
            if bytes.len() > 8192 {
                ctx.count("probe_stream_over_one_buffer");
            }
            if cfg.huge_scale > 1 && bytes.len() > 1 << 20 {
                ctx.count("probe_record_over_1mib");
            }
        }
        // the same bytes under the fragmentation schedule
        let mut fcb = Self::cb(cfg, &bytes, false);
        let frag = match parse(&mut fcb, if cfg.reuse_buffer { Some(&mut shared) } else { None }) {
            Ok(p) => p,
            Err(p) => {
                let class = if p.is_budget() { "unbounded-loop" } else { "panic" };
                return Some(v(class, &[("schedule", "fragmented"), ("message", &p.msg_class()), ("file", &p.file_class())], format!("reader panicked under fragmentation mode {}: {} at {}:{}", cfg.mode, p.msg, p.file, p.line)));
            }
        };
        ctx.count_n("fault_zero_length_read", fcb.zero_fired);
        ctx.count_n("probe_pieces", fcb.pieces);
        if fcb.pieces > 1 || fcb.zero_fired > 0 {
            ctx.fault_inflight = true;
            ctx.count("fault_fragmentation");
        }
        ctx.t(fcb.pieces);
        ctx.state(((cfg.mode as u64) << 8) | ((damaged as u64) << 4) | (frag.items.len().min(15) as u64));
        if cfg.damage == 4 {
            // hard read error at one callback call: the reader may stop there, but what it produced before is
            // exactly the beginning of what the undisturbed stream gives, and it stops with the callback's error
            // (or, if that call was never made, exactly like the undisturbed read)
            let is_prefix = frag.items.len() <= reference.items.len() && frag.items[..] == reference.items[..frag.items.len()];
            let end_ok = match &frag.end {
                End::Err(e) if e == "callback-error" || e == "header: callback-error" => true,
                other => *other == reference.end && frag.items.len() == reference.items.len(),
            };
            if !is_prefix || !end_ok {
                let at = frag.items.iter().zip(reference.items.iter()).position(|(a, b)| a != b);
                return Some(v(
                    "depends-on-fragmentation",
                    &[("what", if is_prefix { "end" } else { "items" }), ("damaged", "read-error")],
                    format!("with one failing read call the reader produced {} items ending {:?}; the undisturbed stream gives {} items ending {:?}; first difference at item {:?}", frag.items.len(), frag.end, reference.items.len(), reference.end, at),
                ));
            }
            ctx.count("probe_read_error_prefix_checked");
            return None;
        }
        if cfg.via_file != 0 && bytes.len() <= 100_000 {
            match file_parse(cfg, &bytes) {
                Err(p) => {
                    return Some(v("panic", &[("schedule", "file-reader"), ("message", &p.msg_class()), ("file", &p.file_class())], format!("the file-based reader panicked: {} at {}:{}", p.msg, p.file, p.line)));
                }
                Ok(None) => ctx.count("probe_file_reader_unavailable"),
                Ok(Some((items, end))) => {
                    ctx.count(if cfg.via_file == 2 { "probe_file_reader_socket" } else { "probe_file_reader_regular" });
                    if cfg.via_file == 2 {
                        ctx.fault_inflight = true;
                        ctx.count("fault_short_read_from_stream_file");
                    }
                    if items != reference.items || end != reference.end {
                        let at = items.iter().zip(reference.items.iter()).position(|(a, b)| a != b);
                        return Some(v(
                            "depends-on-fragmentation",
                            &[("what", if at.is_none() && items.len() == reference.items.len() { "end" } else { "items" }), ("damaged", if damaged { "yes" } else { "no" }), ("reader", if cfg.via_file == 2 { "file-over-socket" } else { "file" })],
                            format!("the same {}-byte stream gives {} items ending {:?} through the incremental reader in one piece but {} items ending {:?} through the public file reader ({}); first difference at item {:?}", bytes.len(), reference.items.len(), reference.end, items.len(), end, if cfg.via_file == 2 { "socket-backed File, two pieces" } else { "regular file" }, at),
                        ));
                    }
                }
            }
        }
        if frag.items != reference.items || frag.end != reference.end {
            let at = frag.items.iter().zip(reference.items.iter()).position(|(a, b)| a != b);
            let kind = if frag.end != reference.end && at.is_none() && frag.items.len() == reference.items.len() { "end" } else { "items" };
            return Some(v(
                "depends-on-fragmentation",
                &[("what", kind), ("damaged", if damaged { "yes" } else { "no" })],
                format!(
                    "the same {}-byte stream gives {} items ending {:?} when read in one piece but {} items ending {:?} under fragmentation mode {} (zero reads {}); first difference at item {:?}: {:?} vs {:?}",
                    bytes.len(), reference.items.len(), reference.end, frag.items.len(), frag.end, cfg.mode, fcb.zero_fired, at,
                    at.and_then(|i| reference.items.get(i)).map(|s| s.chars().take(80).collect::<String>()),
                    at.and_then(|i| frag.items.get(i)).map(|s| s.chars().take(80).collect::<String>())
                ),
            ));
        }
        None
    }

    fn simplify_op(&self, op: &ThOp) -> Vec<ThOp> {
        let mut v = Vec::new();
        match *op {
            ThOp::TickSkip { dt } if dt > 0 => v.push(ThOp::TickSkip { dt: 0 }),
            ThOp::PlayerNew { cid, x, y } if x != 0 || y != 0 => v.push(ThOp::PlayerNew { cid, x: 0, y: 0 }),
            ThOp::PlayerDiff { cid, dx, dy } if dx != 1 || dy != 1 => v.push(ThOp::PlayerDiff { cid, dx: 1, dy: 1 }),
            ThOp::Message { cid, len, salt } if len > 0 => v.push(ThOp::Message { cid, len: 0, salt }),
            ThOp::Ex { kind, salt, len } if len > 0 => v.push(ThOp::Ex { kind, salt, len: 0 }),
            ThOp::Console { cid, nargs, len, salt } if nargs > 0 || len > 0 => v.push(ThOp::Console { cid, nargs: 0, len: 0, salt }),
            _ => {}
        }
        v
    }
    fn simplify_cfg(&self, cfg: &ThCfg) -> Vec<ThCfg> {
        let mut v = Vec::new();
        if cfg.config_entries > 0 {
            v.push(ThCfg { config_entries: 0, ..cfg.clone() });
        }
        if cfg.zero_reads > 0 {
            v.push(ThCfg { zero_reads: 0, ..cfg.clone() });
        }
        if cfg.mode != 1 && cfg.huge_scale <= 1 {
            v.push(ThCfg { mode: 1, ..cfg.clone() });
        }
        if cfg.damage != 0 {
            v.push(ThCfg { damage: 0, ..cfg.clone() });
        }
        v
    }
    fn info(&self) -> EngineInfo {
        EngineInfo {
            rule: "one run = a random server history (players joining, moving, leaving; explicit and implicit tick advances; inputs; all message kinds incl. every known extension message) encoded by a harness-own encoder following doc/teehistorian.md, optionally damaged (torn tail, bit flip, byte overwrite, hard read error), then read by the real incremental reader through its read callback once in one piece and once under a seeded fragmentation schedule (byte-by-byte, two-piece split, random pieces, zero-length non-EOF reads). Oracles: identical item sequence and end under every schedule; proper nesting and strictly increasing ticks; tick numbers equal the documentation's pseudo-code; positions/inputs equal running wrapping sums; no panic; read-callback budget. Non-trivial = the stream was actually delivered in more than one piece (or a zero-length read fired) AND items were compared; distinct = distinct trace hash.".into(),
            assumptions: vec![
                "the documentation (doc/teehistorian.md) is the reference for tick numbers".into(),
                "zero-length non-EOF reads are bounded (at most 3 in a row)".into(),
                "needs the cfg(libtw2_verif) re-export of the private incremental reader".into(),
            ],
            real: vec!["teehistorian::raw::Reader", "teehistorian::raw::Buffer", "teehistorian::format (header, item decoders)", "packer", "buffer"],
            stub: vec!["the file (simulated stream behind the read callback)"],
            required_probes: vec!["probe_valid_stream_checked", "probe_stream_over_one_buffer", "probe_pieces"],
            fault_kinds: vec!["fault_odd_header_field", "fault_short_read_from_stream_file", "fault_fragmentation", "fault_zero_length_read", "fault_torn_tail", "fault_bit_flip", "fault_byte_overwrite", "fault_read_error"],
        }
    }
}
