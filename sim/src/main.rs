#![allow(dead_code)]
mod core;
mod engines;
mod prng;
mod simdisk;

use crate::core::*;
use engines::net::{NetEngine, NetProp};
use std::path::PathBuf;

fn usage() -> ! {
    eprintln!("usage: tw2sim <property> quick|thorough [--runs N] [--secs N] [--workers N] [--digest] [--no-evidence]\n       tw2sim <property> --replay <file> [--quiet]");
    std::process::exit(2);
}

enum Mode {
    Batch(BatchOpts),
    Replay(PathBuf, bool),
}

fn dispatch<E: Engine>(e: &E, mode: &Mode) -> i32 {
    match mode {
        Mode::Batch(o) => run_batch(e, o),
        Mode::Replay(p, q) => replay(e, p, *q),
    }
}

fn main() {
    install_panic_hook();
    let args: Vec<String> = std::env::args().skip(1).collect();
    if args.len() < 2 {
        usage();
    }
    let prop = args[0].clone();
    let seed: u64 = std::env::var("VERIF_SEED").ok().and_then(|s| s.trim().parse().ok()).unwrap_or(1);
    let mode = if args[1] == "--replay" {
        if args.len() < 3 {
            usage();
        }
        Mode::Replay(PathBuf::from(&args[2]), args.iter().any(|a| a == "--quiet"))
    } else {
        let tier = match args[1].as_str() {
            "quick" => Tier::Quick,
            "thorough" => Tier::Thorough,
            _ => usage(),
        };
        let mut o = BatchOpts {
            tier,
            seed,
            workers: std::thread::available_parallelism().map(|n| n.get()).unwrap_or(4).min(16),
            runs_override: None,
            secs_override: None,
            write_evidence: true,
            print_digest: false,
        };
        let mut i = 2;
        while i < args.len() {
            match args[i].as_str() {
                "--runs" => {
                    o.runs_override = args.get(i + 1).and_then(|s| s.parse().ok());
                    i += 1;
                }
                "--secs" => {
                    o.secs_override = args.get(i + 1).and_then(|s| s.parse().ok());
                    i += 1;
                }
                "--workers" => {
                    o.workers = args.get(i + 1).and_then(|s| s.parse().ok()).unwrap_or(o.workers);
                    i += 1;
                }
                "--digest" => o.print_digest = true,
                "--no-evidence" => o.write_evidence = false,
                _ => usage(),
            }
            i += 1;
        }
        Mode::Batch(o)
    };
    let code = match prop.as_str() {
        "C01" => dispatch(&NetEngine { prop: NetProp::C01 }, &mode),
        "C02" => dispatch(&engines::c02::C02Engine, &mode),
        "C03" => dispatch(&NetEngine { prop: NetProp::C03 }, &mode),
        "C04" => dispatch(&NetEngine { prop: NetProp::C04 }, &mode),
        "C12" => dispatch(&engines::snapxfer::XferEngine, &mode),
        "C13" => dispatch(&engines::snapsync::SyncEngine, &mode),
        "C15" => dispatch(&engines::demo::DemoEngine, &mode),
        "C16" => dispatch(&engines::datafile::DfEngine, &mode),
        "C17" => dispatch(&engines::teehist::ThEngine, &mode),
        "C18" => dispatch(&engines::sbrowse::SbEngine, &mode),
        "C19" => dispatch(&engines::buffer::BufEngine, &mode),
        "C20" => dispatch(&engines::multi::MultiEngine { c02: false }, &mode),
        _ => {
            eprintln!("unknown property {}", prop);
            2
        }
    };
    std::process::exit(code);
}
