#![allow(dead_code)]
mod core;
mod engines;
mod prng;
mod simdisk;

use crate::core::*;
use engines::net::{NetEngine, NetProp};
use std::path::PathBuf;

fn usage() -> ! {
    eprintln!("usage: tw2sim <property> quick|thorough [--runs N] [--secs N] [--workers N] [--digest] [--no-evidence]\n       tw2sim <property> --replay <file> [--quiet]");
    std::process::exit(2);
}

enum Mode {
    Batch(BatchOpts),
    Replay(PathBuf, bool),
}

fn dispatch<E: Engine>(e: &E, mode: &Mode) -> i32 {
    match mode {
        Mode::Batch(o) => run_batch(e, o),
        Mode::Replay(p, q) => replay(e, p, *q),
    }
}

macro_rules! with_engine {
    ($prop:expr, $e:ident => $body:expr) => {
        match $prop {
            "C01" => { let $e = &NetEngine { prop: NetProp::C01 }; $body }
            "C02" => { let $e = &engines::c02::C02Engine; $body }
            "C03" => { let $e = &NetEngine { prop: NetProp::C03 }; $body }
            "C04" => { let $e = &NetEngine { prop: NetProp::C04 }; $body }
            "C12" => { let $e = &engines::snapxfer::XferEngine; $body }
            "C13" => { let $e = &engines::snapsync::SyncEngine; $body }
            "C15" => { let $e = &engines::demo::DemoEngine; $body }
            "C16" => { let $e = &engines::datafile::DfEngine; $body }
            "C17" => { let $e = &engines::teehist::ThEngine; $body }
            "C18" => { let $e = &engines::sbrowse::SbEngine; $body }
            "C19" => { let $e = &engines::buffer::BufEngine; $body }
            "C20" => { let $e = &engines::multi::MultiEngine { c02: false }; $body }
            _ => {
                eprintln!("unknown property {}", $prop);
                2
            }
        }
    };
}

/// Runs the real work in a child process so that a hard crash of the code under test
/// (abort, memory fault) becomes a reported violation with a replay file instead of a dead check.
fn supervise(args: &[String], mode: &Mode) -> i32 {
    use std::io::{BufRead, BufReader, Write};
    let exe = std::env::current_exe().unwrap();
    let mut child = match std::process::Command::new(&exe)
        .args(args)
        .env("TW2SIM_CHILD", "1")
        .stdin(std::process::Stdio::null())
        .stderr(std::process::Stdio::piped())
        .spawn()
    {
        Ok(c) => c,
        Err(e) => {
            eprintln!("HARNESS-ERROR: cannot spawn the worker process: {}", e);
            return 2;
        }
    };
    let stderr = child.stderr.take().unwrap();
    let mut crash_line: Option<String> = None;
    for line in BufReader::new(stderr).lines() {
        let line = match line {
            Ok(l) => l,
            Err(_) => break,
        };
        if line.starts_with("TW2SIM-CRASH ") {
            crash_line = Some(line.clone());
        }
        let _ = writeln!(std::io::stderr(), "{}", line);
    }
    let status = match child.wait() {
        Ok(s) => s,
        Err(e) => {
            eprintln!("HARNESS-ERROR: wait: {}", e);
            return 2;
        }
    };
    let signal = match crash_signal_of(&status, crash_line.as_deref().unwrap_or("")) {
        None => return status.code().unwrap_or(2),
        Some(s) => s,
    };
    let field = |name: &str| -> Option<u64> {
        crash_line.as_ref().and_then(|l| l.split_whitespace().find_map(|w| w.strip_prefix(name).and_then(|v| v.parse().ok())))
    };
    match mode {
        Mode::Batch(o) => {
            let (seed, index) = match (field("seed="), field("run_index=")) {
                (Some(s), Some(i)) => (s, i),
                _ => {
                    return with_engine!(args[0].as_str(), e => handle_batch_crash(e, o, None, signal));
                }
            };
            with_engine!(args[0].as_str(), e => handle_crash(e, o, seed, index, signal))
        }
        Mode::Replay(path, _) => {
            let recorded: Option<ReplayFile> = std::fs::read_to_string(path).ok().and_then(|s| serde_json::from_str(&s).ok());
            match recorded {
                Some(rf) if rf.signature.get("class").map(|c| c == "process-crash").unwrap_or(false) => {
                    println!("observation: the process replaying the case was killed by signal {}", signal);
                    println!("signature: {:?}", rf.signature);
                    println!("VIOLATION property={} replay={}", rf.property, path.display());
                    1
                }
                _ => {
                    eprintln!("HARNESS-ERROR: replay of {} crashed (signal {}) although the file records another outcome", path.display(), signal);
                    2
                }
            }
        }
    }
}

/// Applications install a logger; the `log` macros evaluate their arguments only then. A logger that accepts
/// every level and discards the record makes the code inside `error!`/`debug!` argument lists (and
/// `log_enabled!`-guarded dumps) part of what the simulator executes.
struct DiscardingLogger;
impl log::Log for DiscardingLogger {
    fn enabled(&self, _: &log::LogMetadata) -> bool {
        true
    }
    fn log(&self, record: &log::LogRecord) {
        // error-level messages are formatted (Display impls of the arguments run), then dropped; the
        // chattier levels are dropped unformatted (their argument expressions have been evaluated already)
        if record.level() <= log::LogLevel::Warn {
            use std::io::Write;
            let _ = write!(std::io::sink(), "{}", record.args());
        }
    }
}
fn install_discarding_logger() {
    if std::env::var_os("TW2SIM_NO_LOGGER").is_some() {
        return;
    }
    let _ = log::set_logger(|max| {
        max.set(match std::env::var("TW2SIM_LOG_LEVEL").ok().as_deref() { Some("error") => log::LogLevelFilter::Error, Some("warn") => log::LogLevelFilter::Warn, Some("info") => log::LogLevelFilter::Info, Some("debug") => log::LogLevelFilter::Debug, _ => log::LogLevelFilter::Trace });
        Box::new(DiscardingLogger)
    });
}

fn main() {
    install_panic_hook();
    let args: Vec<String> = std::env::args().skip(1).collect();
    if args.len() < 2 {
        usage();
    }
    let prop = args[0].clone();
    let seed: u64 = std::env::var("VERIF_SEED").ok().and_then(|s| s.trim().parse().ok()).unwrap_or(1);
    let mode = if args[1] == "--replay" {
        if args.len() < 3 {
            usage();
        }
        // a batch-level crash replay re-runs the recorded batch
        if std::env::var_os("TW2SIM_CHILD").is_none() {
            if let Some(rf) = std::fs::read_to_string(&args[2]).ok().and_then(|s| serde_json::from_str::<ReplayFile>(&s).ok()) {
                if let Some(b) = rf.case.get("batch") {
                    let exe = std::env::current_exe().unwrap();
                    let out = std::process::Command::new(exe)
                        .arg(&prop)
                        .arg(b["tier"].as_str().unwrap_or("quick"))
                        .args(["--runs", &b["runs"].as_u64().unwrap_or(1000).to_string(), "--workers", &b["workers"].as_u64().unwrap_or(16).to_string(), "--no-evidence"])
                        .env("VERIF_SEED", b["verif_seed"].as_u64().unwrap_or(1).to_string())
                        .env("TW2SIM_CHILD", "1")
                        .output();
                    match out {
                        Ok(o) if crash_signal_of(&o.status, &String::from_utf8_lossy(&o.stderr)).is_some() => {
                            println!("observation: the recorded batch crashed again");
                            println!("signature: {:?}", rf.signature);
                            println!("VIOLATION property={} replay={}", rf.property, args[2]);
                            std::process::exit(1);
                        }
                        Ok(_) => {
                            println!("replay clean: the recorded batch ran without a crash (recorded: {:?})", rf.signature);
                            std::process::exit(0);
                        }
                        Err(e) => {
                            eprintln!("HARNESS-ERROR: cannot spawn the batch: {}", e);
                            std::process::exit(2);
                        }
                    }
                }
            }
        }
        Mode::Replay(PathBuf::from(&args[2]), args.iter().any(|a| a == "--quiet"))
    } else {
        let tier = match args[1].as_str() {
            "quick" => Tier::Quick,
            "thorough" => Tier::Thorough,
            _ => usage(),
        };
        let mut o = BatchOpts {
            tier,
            seed,
            workers: std::thread::available_parallelism().map(|n| n.get()).unwrap_or(4).min(16),
            runs_override: None,
            secs_override: None,
            write_evidence: true,
            print_digest: false,
        };
        let mut i = 2;
        while i < args.len() {
            match args[i].as_str() {
                "--runs" => {
                    o.runs_override = args.get(i + 1).and_then(|s| s.parse().ok());
                    i += 1;
                }
                "--secs" => {
                    o.secs_override = args.get(i + 1).and_then(|s| s.parse().ok());
                    i += 1;
                }
                "--workers" => {
                    o.workers = args.get(i + 1).and_then(|s| s.parse().ok()).unwrap_or(o.workers);
                    i += 1;
                }
                "--digest" => o.print_digest = true,
                "--no-evidence" => o.write_evidence = false,
                _ => usage(),
            }
            i += 1;
        }
        Mode::Batch(o)
    };
    // sanitizers and Miri report crashes in their own way
    let plain = std::env::var_os("ASAN_OPTIONS").is_none() && !cfg!(miri);
    if plain && std::env::var_os("TW2SIM_CHILD").is_none() && std::env::var_os("TW2SIM_NO_SUPERVISOR").is_none() {
        std::process::exit(supervise(&args, &mode));
    }
    if plain {
        install_crash_handler();
    }
    install_discarding_logger();
    let code = match prop.as_str() {
        "C01" => dispatch(&NetEngine { prop: NetProp::C01 }, &mode),
        "C02" => dispatch(&engines::c02::C02Engine, &mode),
        "C03" => dispatch(&NetEngine { prop: NetProp::C03 }, &mode),
        "C04" => dispatch(&NetEngine { prop: NetProp::C04 }, &mode),
        "C12" => dispatch(&engines::snapxfer::XferEngine, &mode),
        "C13" => dispatch(&engines::snapsync::SyncEngine, &mode),
        "C15" => dispatch(&engines::demo::DemoEngine, &mode),
        "C16" => dispatch(&engines::datafile::DfEngine, &mode),
        "C17" => dispatch(&engines::teehist::ThEngine, &mode),
        "C18" => dispatch(&engines::sbrowse::SbEngine, &mode),
        "C19" => dispatch(&engines::buffer::BufEngine, &mode),
        "C20" => dispatch(&engines::multi::MultiEngine { c02: false }, &mode),
        _ => {
            eprintln!("unknown property {}", prop);
            2
        }
    };
    std::process::exit(code);
}
