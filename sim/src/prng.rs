//! SplitMix64 -> xoshiro256** — implemented here so that one integer decides
//! every run identically on every platform and toolchain.

#[inline]
pub fn splitmix(x: &mut u64) -> u64 {
    *x = x.wrapping_add(0x9E37_79B9_7F4A_7C15);
    let mut z = *x;
    z = (z ^ (z >> 30)).wrapping_mul(0xBF58_476D_1CE4_E5B9);
    z = (z ^ (z >> 27)).wrapping_mul(0x94D0_49BB_1331_11EB);
    z ^ (z >> 31)
}

/// Mixes up to three integers into one seed (order-sensitive).
pub fn mix(a: u64, b: u64, c: u64) -> u64 {
    let mut s = a ^ 0x5851_F42D_4C95_7F2D;
    let x = splitmix(&mut s);
    let mut s2 = x ^ b.wrapping_mul(0x9E37_79B9_7F4A_7C15);
    let y = splitmix(&mut s2);
    let mut s3 = y ^ c.wrapping_mul(0xD6E8_FEB8_6659_FD93);
    splitmix(&mut s3)
}

pub fn fnv1a(bytes: &[u8]) -> u64 {
    let mut h: u64 = 0xcbf2_9ce4_8422_2325;
    for &b in bytes {
        h ^= b as u64;
        h = h.wrapping_mul(0x0000_0100_0000_01b3);
    }
    h
}

#[derive(Clone, Debug)]
pub struct Prng {
    s: [u64; 4],
}

impl Prng {
    pub fn new(seed: u64) -> Prng {
        let mut x = seed;
        let mut s = [0u64; 4];
        for v in s.iter_mut() {
            *v = splitmix(&mut x);
        }
        if s == [0; 4] {
            s[0] = 1;
        }
        Prng { s }
    }
    /// Independent stream `id` of the run seed.
    pub fn stream(seed: u64, id: u64) -> Prng {
        Prng::new(mix(seed, id, 0x7477_3273_696d))
    }
    #[inline]
    pub fn next_u64(&mut self) -> u64 {
        let result = self.s[1].wrapping_mul(5).rotate_left(7).wrapping_mul(9);
        let t = self.s[1] << 17;
        self.s[2] ^= self.s[0];
        self.s[3] ^= self.s[1];
        self.s[1] ^= self.s[2];
        self.s[0] ^= self.s[3];
        self.s[2] ^= t;
        self.s[3] = self.s[3].rotate_left(45);
        result
    }
    /// Uniform in `0..n` (n > 0).
    #[inline]
    pub fn below(&mut self, n: u64) -> u64 {
        debug_assert!(n > 0);
        // multiply-shift; bias is irrelevant here, determinism is not.
        ((self.next_u64() as u128 * n as u128) >> 64) as u64
    }
    /// Uniform in `lo..=hi`.
    #[inline]
    pub fn range(&mut self, lo: u64, hi: u64) -> u64 {
        debug_assert!(lo <= hi);
        lo + self.below(hi - lo + 1)
    }
    #[inline]
    pub fn usize_below(&mut self, n: usize) -> usize {
        self.below(n as u64) as usize
    }
    /// True with probability `num/den`.
    #[inline]
    pub fn chance(&mut self, num: u64, den: u64) -> bool {
        self.below(den) < num
    }
    pub fn pick<'a, T>(&mut self, items: &'a [T]) -> &'a T {
        &items[self.usize_below(items.len())]
    }
    /// Index drawn according to integer weights.
    pub fn weighted(&mut self, weights: &[u32]) -> usize {
        let total: u64 = weights.iter().map(|&w| w as u64).sum();
        debug_assert!(total > 0);
        let mut x = self.below(total);
        for (i, &w) in weights.iter().enumerate() {
            if x < w as u64 {
                return i;
            }
            x -= w as u64;
        }
        weights.len() - 1
    }
    pub fn fill(&mut self, buf: &mut [u8]) {
        for chunk in buf.chunks_mut(8) {
            let v = self.next_u64().to_le_bytes();
            chunk.copy_from_slice(&v[..chunk.len()]);
        }
    }
    pub fn bytes(&mut self, n: usize) -> Vec<u8> {
        let mut v = vec![0; n];
        self.fill(&mut v);
        v
    }
    pub fn i32_any(&mut self) -> i32 {
        self.next_u64() as i32
    }
    /// Boundary-biased i32.
    pub fn i32_edge(&mut self) -> i32 {
        match self.below(10) {
            0 => 0,
            1 => 1,
            2 => -1,
            3 => i32::MAX,
            4 => i32::MIN,
            5 => self.range(0, 300) as i32 - 150,
            6 => (self.range(0, 20000) as i32) - 10000,
            _ => self.i32_any(),
        }
    }
}

/// Incremental FNV-style trace hasher (order-sensitive).
#[derive(Clone, Copy, Debug)]
pub struct TraceHash(pub u64);

impl TraceHash {
    pub fn new() -> TraceHash {
        TraceHash(0xcbf2_9ce4_8422_2325)
    }
    #[inline]
    pub fn add(&mut self, v: u64) {
        let mut h = self.0;
        for i in 0..8 {
            h ^= (v >> (i * 8)) & 0xff;
            h = h.wrapping_mul(0x0000_0100_0000_01b3);
        }
        self.0 = h;
    }
    pub fn add_bytes(&mut self, b: &[u8]) {
        self.add(fnv1a(b));
        self.add(b.len() as u64);
    }
}
