//! Simulated disk / stream: a byte vector with a cursor whose `Read`, `Write`
//! and `Seek` behave like a real file under legal-but-unusual I/O behaviour
//! (short reads and writes, EINTR), decided by a seeded schedule.

use crate::prng::Prng;
use std::io;

#[derive(Clone, Debug, Default)]
pub struct IoStats {
    pub reads: u64,
    pub writes: u64,
    pub short_reads: u64,
    pub short_writes: u64,
    pub intr_reads: u64,
    pub intr_writes: u64,
    pub hard_errors: u64,
    pub seeks: u64,
}

pub struct SimDisk {
    pub data: Vec<u8>,
    pub pos: u64,
    rng: Prng,
    /// per-mille probabilities
    pub short_read: u64,
    pub short_write: u64,
    pub intr_read: u64,
    pub intr_write: u64,
    /// hard I/O error at the k-th read/write call (1-based), if any
    pub fail_at_call: Option<u64>,
    /// the largest piece a single read returns (0 = unlimited)
    pub max_read: usize,
    intr_in_a_row: u32,
    pub stats: IoStats,
    /// armed from outside while a writer holds the disk: the next write call fails (transient error, e.g.
    /// ENOSPC) and writes nothing; the flag is cleared when it fires
    pub fail_once: std::rc::Rc<std::cell::Cell<bool>>,
    pub fail_once_fired: std::rc::Rc<std::cell::Cell<u32>>,
}

impl SimDisk {
    pub fn new(data: Vec<u8>, seed: u64) -> SimDisk {
        SimDisk {
            data,
            pos: 0,
            rng: Prng::new(seed),
            short_read: 0,
            short_write: 0,
            intr_read: 0,
            intr_write: 0,
            fail_at_call: None,
            max_read: 0,
            intr_in_a_row: 0,
            stats: IoStats::default(),
            fail_once: Default::default(),
            fail_once_fired: Default::default(),
        }
    }
    pub fn faulty(data: Vec<u8>, seed: u64, short: u64, intr: u64) -> SimDisk {
        let mut d = SimDisk::new(data, seed);
        d.short_read = short;
        d.short_write = short;
        d.intr_read = intr;
        d.intr_write = intr;
        d
    }
    fn calls(&self) -> u64 {
        self.stats.reads + self.stats.writes
    }
    fn hard(&mut self) -> io::Result<()> {
        if let Some(k) = self.fail_at_call {
            if self.calls() >= k {
                self.stats.hard_errors += 1;
                return Err(io::Error::new(io::ErrorKind::Other, "simulated I/O error"));
            }
        }
        Ok(())
    }
}

impl io::Read for SimDisk {
    fn read(&mut self, buf: &mut [u8]) -> io::Result<usize> {
        self.stats.reads += 1;
        self.hard()?;
        if self.intr_read > 0 && self.intr_in_a_row < 3 && self.rng.chance(self.intr_read, 1000) {
            self.intr_in_a_row += 1;
            self.stats.intr_reads += 1;
            return Err(io::Error::new(io::ErrorKind::Interrupted, "simulated EINTR"));
        }
        self.intr_in_a_row = 0;
        let pos = (self.pos as usize).min(self.data.len());
        let mut n = buf.len().min(self.data.len() - pos);
        if self.max_read > 0 {
            n = n.min(self.max_read);
        }
        if n > 1 && self.short_read > 0 && self.rng.chance(self.short_read, 1000) {
            n = 1 + self.rng.usize_below(n - 1);
            self.stats.short_reads += 1;
        }
        buf[..n].copy_from_slice(&self.data[pos..pos + n]);
        self.pos = (pos + n) as u64;
        Ok(n)
    }
}

impl io::Write for SimDisk {
    fn write(&mut self, buf: &[u8]) -> io::Result<usize> {
        self.stats.writes += 1;
        self.hard()?;
        if buf.is_empty() {
            return Ok(0);
        }
        if self.fail_once.get() {
            self.fail_once.set(false);
            self.fail_once_fired.set(self.fail_once_fired.get() + 1);
            return Err(io::Error::new(io::ErrorKind::Other, "simulated transient write error (nothing written)"));
        }
        if self.intr_write > 0 && self.intr_in_a_row < 3 && self.rng.chance(self.intr_write, 1000) {
            self.intr_in_a_row += 1;
            self.stats.intr_writes += 1;
            return Err(io::Error::new(io::ErrorKind::Interrupted, "simulated EINTR"));
        }
        self.intr_in_a_row = 0;
        let mut n = buf.len();
        if n > 1 && self.short_write > 0 && self.rng.chance(self.short_write, 1000) {
            n = 1 + self.rng.usize_below(n - 1);
            self.stats.short_writes += 1;
        }
        let pos = self.pos as usize;
        if self.data.len() < pos {
            self.data.resize(pos, 0);
        }
        let overlap = (self.data.len() - pos).min(n);
        self.data[pos..pos + overlap].copy_from_slice(&buf[..overlap]);
        self.data.extend_from_slice(&buf[overlap..n]);
        self.pos = (pos + n) as u64;
        Ok(n)
    }
    fn flush(&mut self) -> io::Result<()> {
        Ok(())
    }
}

impl io::Seek for SimDisk {
    fn seek(&mut self, pos: io::SeekFrom) -> io::Result<u64> {
        self.stats.seeks += 1;
        let new = match pos {
            io::SeekFrom::Start(p) => p as i128,
            io::SeekFrom::End(o) => self.data.len() as i128 + o as i128,
            io::SeekFrom::Current(o) => self.pos as i128 + o as i128,
        };
        if new < 0 {
            return Err(io::Error::new(io::ErrorKind::InvalidInput, "seek before start"));
        }
        self.pos = new as u64;
        Ok(self.pos)
    }
}
